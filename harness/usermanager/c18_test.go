package usermanager

// C18 - user database and admin API act as a keyed store and never crash the server.
// The real APIRouterOf(localManager) is driven through httptest; a reference map UID -> field ->
// value is compared with the full state after every operation, across close/reopen of the
// database; concurrent API clients are checked with porcupine (partitioned per UID); every record
// shape the API can create is run through all consumers with panics recovered and reported.

import (
	"bytes"
	"encoding/base64"
	"encoding/json"
	"fmt"
	"math"
	mrand "math/rand/v2"
	"net/http"
	"net/http/httptest"
	"os"
	"path/filepath"
	"sort"
	"strings"
	"sync"
	"sync/atomic"
	"testing"
	"time"

	"github.com/anishathalye/porcupine"
	"github.com/cbeuw/Cloak/internal/common"
	vk "github.com/cbeuw/Cloak/internal/verifkit"
)

var c18Fields = []string{"SessionsCap", "UpRate", "DownRate", "UpCredit", "DownCredit", "ExpiryTime"}

type c18Model map[string]map[string]int64 // uid(hex) -> field -> value (absent = never written)

func (m c18Model) clone() c18Model {
	n := c18Model{}
	for k, v := range m {
		f := map[string]int64{}
		for a, b := range v {
			f[a] = b
		}
		n[k] = f
	}
	return n
}

type c18Env struct {
	dir    string
	mgr    *localManager
	router *APIRouter
}

func newC18Env() *c18Env {
	dir, err := os.MkdirTemp("", "verif-c18-")
	if err != nil {
		panic(err)
	}
	e := &c18Env{dir: dir}
	e.open()
	return e
}

func (e *c18Env) open() {
	mgr, err := MakeLocalManager(filepath.Join(e.dir, "users.db"), common.RealWorldState)
	if err != nil {
		panic(err)
	}
	e.mgr = mgr
	e.router = APIRouterOf(mgr)
}

func (e *c18Env) reopen() {
	e.mgr.Close()
	e.open()
}

func (e *c18Env) cleanup() {
	e.mgr.Close()
	os.RemoveAll(e.dir)
}

// do performs one request; a panic inside the handler is reported, not propagated.
func (e *c18Env) do(method, path string, body []byte) (code int, resp []byte, panicked any) {
	defer func() {
		if p := recover(); p != nil {
			panicked = p
		}
	}()
	req, err := http.NewRequest(method, path, bytes.NewReader(body))
	if err != nil {
		return 0, nil, nil
	}
	rr := httptest.NewRecorder()
	e.router.ServeHTTP(rr, req)
	return rr.Code, rr.Body.Bytes(), nil
}

func uidPath(uid []byte) string { return "/admin/users/" + base64.URLEncoding.EncodeToString(uid) }

// readUser fetches one user through the API and normalises it to field -> value.
func (e *c18Env) readUser(uid []byte) (fields map[string]int64, found bool, problem string) {
	code, body, p := e.do("GET", uidPath(uid), nil)
	if p != nil {
		return nil, false, fmt.Sprintf("panic while reading user %x through the API: %v", uid, p)
	}
	if code == 404 {
		return nil, false, ""
	}
	if code != 200 {
		return nil, false, fmt.Sprintf("GET of user %x answered %d: %s", uid, code, body)
	}
	var raw map[string]json.RawMessage
	if err := json.Unmarshal(body, &raw); err != nil {
		return nil, false, fmt.Sprintf("GET of user %x returned unparsable JSON: %v", uid, err)
	}
	var gotUID []byte
	json.Unmarshal(raw["UID"], &gotUID)
	if !bytes.Equal(gotUID, uid) {
		return nil, false, fmt.Sprintf("GET of user %x returned a record for UID %x", uid, gotUID)
	}
	fields = map[string]int64{}
	for _, f := range c18Fields {
		v, ok := raw[f]
		if !ok || string(v) == "null" {
			continue // never-written fields may read as null ...
		}
		var n int64
		if err := json.Unmarshal(v, &n); err != nil {
			return nil, false, fmt.Sprintf("field %s of user %x is not an integer: %s", f, uid, v)
		}
		fields[f] = n
	}
	return fields, true, ""
}

// compare checks the whole observable state against the model.
func (e *c18Env) compare(m c18Model, uids [][]byte) string {
	for _, uid := range uids {
		key := fmt.Sprintf("%x", uid)
		got, found, prob := e.readUser(uid)
		if prob != "" {
			return prob
		}
		want, exists := m[key]
		if exists != found {
			return fmt.Sprintf("user %x: the operation sequence implies exists=%v, the API says exists=%v", uid, exists, found)
		}
		if !exists {
			continue
		}
		for _, f := range c18Fields {
			wv, wok := want[f]
			gv, gok := got[f]
			if !wok {
				wv = 0 // ... or as zero
			}
			if !gok {
				gv = 0
			}
			if wv != gv {
				return fmt.Sprintf("user %x field %s reads %d, the operation sequence implies %d (written before: %v)", uid, f, gv, wv, wok)
			}
		}
	}
	// list
	code, body, p := e.do("GET", "/admin/users", nil)
	if p != nil {
		return fmt.Sprintf("panic while listing users through the API: %v", p)
	}
	if code != 200 {
		return fmt.Sprintf("list answered %d: %s", code, body)
	}
	var list []map[string]json.RawMessage
	if err := json.Unmarshal(body, &list); err != nil {
		return "list returned unparsable JSON: " + err.Error()
	}
	var have []string
	for _, it := range list {
		var u []byte
		json.Unmarshal(it["UID"], &u)
		have = append(have, fmt.Sprintf("%x", u))
	}
	var want []string
	for k := range m {
		want = append(want, k)
	}
	sort.Strings(have)
	sort.Strings(want)
	if strings.Join(have, ",") != strings.Join(want, ",") {
		return fmt.Sprintf("list returns users %v, the operation sequence implies %v", have, want)
	}
	return ""
}

var c18Values = []int64{0, 1, -1, math.MaxInt32, math.MinInt32, math.MaxInt64, math.MinInt64, 1 << 40, 1000000}

func c18Val(rng *mrand.Rand, field string) int64 {
	v := c18Values[rng.IntN(len(c18Values))]
	if rng.IntN(3) == 0 {
		v = rng.Int64()
		if rng.IntN(2) == 0 {
			v = -v
		}
	}
	if field == "SessionsCap" {
		v = int64(int32(v))
	}
	return v
}

type c18Op struct {
	Kind string           `json:"op"`
	UID  string           `json:"uid"`
	Set  map[string]int64 `json:"set,omitempty"`
	Note string           `json:"note,omitempty"`
}

func postBody(uid []byte, set map[string]int64) []byte {
	m := map[string]any{"UID": uid}
	for f, v := range set {
		m[f] = v
	}
	b, _ := json.Marshal(m)
	return b
}

// c18Sequence runs one sequential history.
func c18Sequence(r *vk.Reporter, rng *mrand.Rand, nops int) (kind, detail string, ops []c18Op) {
	e := newC18Env()
	defer e.cleanup()
	uids := [][]byte{make([]byte, 16), make([]byte, 16), make([]byte, 16)}
	for i := range uids {
		for k := range uids[i] {
			uids[i][k] = byte(rng.Uint32())
		}
	}
	model := c18Model{}
	lastPost := map[string]map[string]int64{} // last accepted POST per uid, for byte-identical re-posts
	fail := func(k, d string) (string, string, []c18Op) {
		return k, d, ops
	}
	for i := 0; i < nops; i++ {
		uid := uids[rng.IntN(len(uids))]
		key := fmt.Sprintf("%x", uid)
		before := model.clone()
		var code int
		var p any
		op := c18Op{UID: key[:8]}
		switch k := rng.IntN(17); {
		case k == 14 && lastPost[key] != nil: // the same request again, byte for byte (admin frontends re-post forms), also after a delete
			set := lastPost[key]
			op.Kind, op.Set, op.Note = "POST", set, "identical to an earlier request"
			code, _, p = e.do("POST", uidPath(uid), postBody(uid, set))
			if p == nil && code >= 200 && code < 300 {
				if model[key] == nil {
					model[key] = map[string]int64{}
				}
				for f, v := range set {
					model[key][f] = v
				}
			}
		case k == 15 || k == 16: // a usage upload for one to three users in one batch, as the server does every minute
			var batch []StatusUpdate
			seen := map[string]bool{}
			for b := 0; b < 1+rng.IntN(3); b++ {
				bu := uids[rng.IntN(len(uids))]
				bk := fmt.Sprintf("%x", bu)
				if seen[bk] {
					continue
				}
				seen[bk] = true
				up, down := int64(rng.IntN(1000)), int64(rng.IntN(1000))
				batch = append(batch, StatusUpdate{UID: bu, Active: true, NumSession: 1, UpUsage: up, DownUsage: down, Timestamp: time.Now().Unix()})
				if model[bk] != nil {
					model[bk]["UpCredit"] -= up
					model[bk]["DownCredit"] -= down
				}
			}
			op.Kind, op.Note = "UPLOAD", fmt.Sprintf("usage upload for %d users", len(batch))
			func() {
				defer func() { p = recover() }()
				_, err := e.mgr.UploadStatus(batch)
				if err != nil {
					code = 500
				} else {
					code = 200
				}
			}()
			if code == 500 {
				return fail("upload-failed", "UploadStatus returned an error")
			}
		case k < 6: // create / update with a random subset of fields
			set := map[string]int64{}
			mask := rng.IntN(64)
			for fi, f := range c18Fields {
				if mask&(1<<uint(fi)) != 0 {
					set[f] = c18Val(rng, f)
				}
			}
			op.Kind, op.Set = "POST", set
			code, _, p = e.do("POST", uidPath(uid), postBody(uid, set))
			if p == nil && code >= 200 && code < 300 {
				if model[key] == nil {
					model[key] = map[string]int64{}
				}
				for f, v := range set {
					model[key][f] = v
				}
				lastPost[key] = set
			}
		case k == 6:
			op.Kind = "DELETE"
			code, _, p = e.do("DELETE", uidPath(uid), nil)
			if p == nil && code >= 200 && code < 300 {
				delete(model, key)
			}
		case k == 7: // body UID differs from the URL UID
			other := uids[rng.IntN(len(uids))]
			if bytes.Equal(other, uid) {
				other = append([]byte{}, uid...)
				other[0] ^= 1
			}
			op.Kind, op.Note = "POST", fmt.Sprintf("body UID %x differs from URL", other[:4])
			code, _, p = e.do("POST", uidPath(uid), postBody(other, map[string]int64{"SessionsCap": 3, "UpCredit": 77}))
			if p == nil && code >= 200 && code < 300 {
				// accepted: then it must have been applied to the URL's user and only to it
				if model[key] == nil {
					model[key] = map[string]int64{}
				}
				model[key]["SessionsCap"], model[key]["UpCredit"] = 3, 77
			}
		case k == 8: // malformed JSON
			bad := [][]byte{[]byte("{"), []byte("not json"), []byte(`{"UID":123}`), []byte(`{"UID":"` + base64.StdEncoding.EncodeToString(uid) + `","UpRate":"fast"}`), []byte(`{"UID":"` + base64.StdEncoding.EncodeToString(uid) + `","SessionsCap":99999999999}`), {}}
			op.Kind, op.Note = "POST", "malformed body"
			code, _, p = e.do("POST", uidPath(uid), bad[rng.IntN(len(bad))])
			if p == nil && code >= 200 && code < 300 {
				return fail("malformed-accepted", fmt.Sprintf("a malformed request body was answered with %d", code))
			}
		case k == 9: // bad base64 / unknown user
			op.Kind, op.Note = "GET", "bad base64 in URL"
			code, _, p = e.do([]string{"GET", "POST", "DELETE"}[rng.IntN(3)], "/admin/users/%%%notbase64!", postBody(uid, nil))
			if p == nil && code >= 200 && code < 300 {
				return fail("bad-uid-accepted", fmt.Sprintf("a request with an undecodable UID in the URL was answered with %d", code))
			}
		case k == 10:
			op.Kind = "REOPEN"
			e.reopen()
		default:
			op.Kind = "GET"
		}
		ops = append(ops, op)
		r.Count("operations", 1)
		if p != nil {
			return fail("api-panic", fmt.Sprintf("operation %d %+v made the API handler panic: %v", i, op, p))
		}
		if code >= 300 {
			model = before // a rejected request changes nothing
			r.Count("rejected_requests", 1)
		}
		if d := e.compare(model, uids); d != "" {
			k := "state-differs"
			if strings.Contains(d, "panic") {
				k = "read-panic"
			}
			if code >= 300 {
				k = "rejected-request-changed-state"
				if strings.Contains(d, "panic") {
					k = "read-panic"
				}
			}
			return fail(k, fmt.Sprintf("after operation %d %+v (status %d): %s", i, op, code, d))
		}
	}
	// survives close and reopen
	e.reopen()
	if d := e.compare(model, uids); d != "" {
		return fail("lost-after-reopen", "after closing and reopening the database: "+d)
	}
	return "", "", ops
}

// c18Consumers runs every consumer over records with every subset of fields.
func c18Consumers(r *vk.Reporter, rng *mrand.Rand) (kind, detail string) {
	e := newC18Env()
	defer e.cleanup()
	call := func(what string, f func()) (p any) {
		defer func() { p = recover() }()
		f()
		return nil
	}
	for mask := 0; mask < 64; mask++ {
		for rep := 0; rep < 3; rep++ {
			uid := make([]byte, 16)
			for k := range uid {
				uid[k] = byte(rng.Uint32())
			}
			set := map[string]int64{}
			for fi, f := range c18Fields {
				if mask&(1<<uint(fi)) != 0 {
					set[f] = c18Val(rng, f)
					if rep == 0 {
						set[f] = []int64{5, 1 << 20, 1 << 20, 1 << 30, 1 << 30, time.Now().Unix() + 10000}[fi]
					}
				}
			}
			code, _, p := e.do("POST", uidPath(uid), postBody(uid, set))
			if p != nil || code >= 300 {
				return "create-failed", fmt.Sprintf("creating a record with fields %v failed (status %d, panic %v)", set, code, p)
			}
			r.Count("record_shapes", 1)
			consumers := map[string]func(){
				"GetUserInfo":         func() { e.mgr.GetUserInfo(uid) },
				"ListAllUsers":        func() { e.mgr.ListAllUsers() },
				"AuthenticateUser":    func() { e.mgr.AuthenticateUser(uid) },
				"AuthoriseNewSession": func() { e.mgr.AuthoriseNewSession(uid, AuthorisationInfo{NumExistingSessions: 1}) },
				"UploadStatus": func() {
					e.mgr.UploadStatus([]StatusUpdate{{UID: uid, Active: true, NumSession: 1, UpUsage: 10, DownUsage: 20, Timestamp: time.Now().Unix()}})
				},
			}
			for name, f := range consumers {
				if p := call(name, f); p != nil {
					var fs []string
					for f := range set {
						fs = append(fs, f)
					}
					sort.Strings(fs)
					return "consumer-panic", fmt.Sprintf("%s panics on a record the API created with only the fields %v: %v", name, fs, p)
				}
				r.Count("consumer_calls", 1)
			}
		}
	}
	return "", ""
}

// ---- concurrent clients, porcupine -----------------------------------------------------------

type c18In struct {
	Op  string
	UID int
	Set string // canonical "f=v;"
}
type c18Out struct {
	Code  int
	State string // GET: canonical state or "absent"
}

func canon(m map[string]int64) string {
	var ks []string
	for _, f := range c18Fields {
		if v, ok := m[f]; ok && v != 0 {
			ks = append(ks, fmt.Sprintf("%s=%d", f, v))
		}
	}
	return strings.Join(ks, ";")
}

var c18Porc = porcupine.Model{
	Partition: func(h []porcupine.Operation) [][]porcupine.Operation {
		by := map[int][]porcupine.Operation{}
		for _, o := range h {
			by[o.Input.(c18In).UID] = append(by[o.Input.(c18In).UID], o)
		}
		var out [][]porcupine.Operation
		for _, v := range by {
			out = append(out, v)
		}
		return out
	},
	Init: func() interface{} { return "absent" },
	Step: func(st, in, out interface{}) (bool, interface{}) {
		s := st.(string)
		i := in.(c18In)
		o := out.(c18Out)
		switch i.Op {
		case "GET":
			if s == "absent" {
				return o.Code == 404, s
			}
			return o.Code == 200 && o.State == s, s
		case "DELETE":
			if o.Code >= 300 {
				return true, s // deleting an absent user may be refused; nothing changes
			}
			return true, "absent"
		case "UPLOAD":
			if s == "absent" {
				return true, s // usage of a user that no longer exists changes nothing
			}
			cur := map[string]int64{}
			for _, kv := range strings.Split(s, ";") {
				if kv == "" {
					continue
				}
				p := strings.SplitN(kv, "=", 2)
				var v int64
				fmt.Sscan(p[1], &v)
				cur[p[0]] = v
			}
			var a, b int64
			fmt.Sscanf(i.Set, "%d;%d", &a, &b)
			cur["UpCredit"] -= a
			cur["DownCredit"] -= b
			return true, canon(cur)
		case "POST":
			if o.Code >= 300 {
				return true, s
			}
			cur := map[string]int64{}
			if s != "absent" {
				for _, kv := range strings.Split(s, ";") {
					if kv == "" {
						continue
					}
					p := strings.SplitN(kv, "=", 2)
					var v int64
					fmt.Sscan(p[1], &v)
					cur[p[0]] = v
				}
			}
			for _, kv := range strings.Split(i.Set, ";") {
				if kv == "" {
					continue
				}
				p := strings.SplitN(kv, "=", 2)
				var v int64
				fmt.Sscan(p[1], &v)
				cur[p[0]] = v
			}
			return true, canon(cur)
		}
		return false, s
	},
	DescribeOperation: func(in, out interface{}) string {
		return fmt.Sprintf("%+v -> %+v", in, out)
	},
}

func c18Concurrent(r *vk.Reporter, rng *mrand.Rand, clients, per int) (kind, detail string) {
	e := newC18Env()
	defer e.cleanup()
	uids := [][]byte{make([]byte, 16), make([]byte, 16)}
	for i := range uids {
		for k := range uids[i] {
			uids[i][k] = byte(rng.Uint32())
		}
	}
	var clock atomic.Int64
	var mu sync.Mutex
	var hist []porcupine.Operation
	var wg sync.WaitGroup
	var panicMsg atomic.Value
	for c := 0; c < clients; c++ {
		c := c
		seed := rng.Uint64()
		wg.Add(1)
		go func() {
			defer wg.Done()
			lr := mrand.New(mrand.NewPCG(seed, 18))
			for k := 0; k < per; k++ {
				ui := lr.IntN(len(uids))
				in := c18In{UID: ui}
				var out c18Out
				call := clock.Add(1)
				switch lr.IntN(6) {
				case 5: // a usage upload for this user, as the server's periodic round does (not through HTTP)
					a, b := int64(lr.IntN(4)), int64(lr.IntN(4))
					in.Op, in.Set = "UPLOAD", fmt.Sprintf("%d;%d", a, b)
					func() {
						defer func() {
							if p := recover(); p != nil {
								panicMsg.Store(fmt.Sprint(p))
							}
						}()
						e.mgr.UploadStatus([]StatusUpdate{{UID: uids[ui], Active: true, NumSession: 1, UpUsage: a, DownUsage: b, Timestamp: time.Now().Unix()}})
					}()
				case 0, 1:
					set := map[string]int64{}
					for _, f := range c18Fields {
						if lr.IntN(3) == 0 {
							set[f] = int64(1 + lr.IntN(5))
						}
					}
					in.Op, in.Set = "POST", canon(set)
					code, _, p := e.do("POST", uidPath(uids[ui]), postBody(uids[ui], set))
					if p != nil {
						panicMsg.Store(fmt.Sprint(p))
					}
					out.Code = code
				case 2:
					in.Op = "DELETE"
					code, _, p := e.do("DELETE", uidPath(uids[ui]), nil)
					if p != nil {
						panicMsg.Store(fmt.Sprint(p))
					}
					out.Code = code
				default:
					in.Op = "GET"
					f, found, prob := e.readUser(uids[ui])
					switch {
					case prob != "":
						panicMsg.Store(prob)
						out.Code = 500
					case !found:
						out.Code = 404
					default:
						out.Code, out.State = 200, canon(f)
					}
				}
				ret := clock.Add(1)
				mu.Lock()
				hist = append(hist, porcupine.Operation{ClientId: c, Input: in, Call: call, Output: out, Return: ret})
				mu.Unlock()
			}
		}()
	}
	wg.Wait()
	r.Count("concurrent_operations", int64(len(hist)))
	if m := panicMsg.Load(); m != nil {
		return "concurrent-problem", fmt.Sprint(m)
	}
	res, _ := porcupine.CheckOperationsVerbose(c18Porc, hist, 2*time.Minute)
	switch res {
	case porcupine.Illegal:
		var lines []string
		for _, o := range hist[:min(len(hist), 60)] {
			lines = append(lines, fmt.Sprintf("[%d,%d] c%d %s", o.Call, o.Return, o.ClientId, c18Porc.DescribeOperation(o.Input, o.Output)))
		}
		return "not-linearizable", "concurrent admin API history is not linearizable against the keyed-store model: " + strings.Join(lines, " | ")
	case porcupine.Unknown:
		return "inconclusive", "porcupine timed out"
	}
	return "", ""
}

func TestVerif_C18(t *testing.T) {
	r := vk.Open()
	defer r.Close()
	for i := 0; i < r.Pick(300, 12000); i++ {
		id := fmt.Sprintf("sequence-%d", i)
		if !r.Mine(id) {
			continue
		}
		r.Case(id, nil)
		k, d, ops := c18Sequence(r, r.Rand("c18", i), 5+i%56)
		r.Count("evaluations", 1)
		r.Distinct("cases", vk.Hash64("seq", i))
		if i < 2 {
			r.Sample(map[string]any{"operations": ops[:min(len(ops), 10)]})
		}
		if k != "" {
			r.Violation(id, "C18:"+k, d, ops)
		} else {
			r.Pass(id)
		}
	}
	for i := 0; i < r.Pick(2, 16); i++ {
		id := fmt.Sprintf("consumers-%d", i)
		if !r.Mine(id) {
			continue
		}
		r.Case(id, nil)
		k, d := c18Consumers(r, r.Rand("c18c", i))
		r.Count("evaluations", 1)
		r.Distinct("cases", vk.Hash64("cons", i))
		if k != "" {
			r.Violation(id, "C18:"+k, d, nil)
		} else {
			r.Pass(id)
		}
	}
	for i := 0; i < r.Pick(24, 600); i++ {
		id := fmt.Sprintf("concurrent-%d", i)
		if !r.Mine(id) {
			continue
		}
		r.Case(id, nil)
		k, d := c18Concurrent(r, r.Rand("c18p", i), 2+i%5, 12)
		r.Count("evaluations", 1)
		r.Distinct("cases", vk.Hash64("conc", i))
		switch k {
		case "":
			r.Pass(id)
		case "inconclusive":
			r.Inconclusive(id, d)
		default:
			r.Violation(id, "C18:"+k, d, nil)
		}
	}
}
