package multiplex

// C12 - faults tear a session down cleanly: prefixes only, nothing left blocked.
// Rig A in a bubble. Faults (reset/EOF at a record boundary or inside a record) and session Close
// are injected at every step of a router-driven run; the oracle looks at what each reader got,
// which recorded operations returned, whether new streams are refused, whether every connection
// ended up closed, and at the stream-count and inactivity-timer invariants of live sessions.

import (
	"fmt"
	"io"
	"math/rand/v2"
	"sort"
	"sync"
	"sync/atomic"
	"testing"
	"time"

	"github.com/cbeuw/Cloak/internal/verifhook"
	vk "github.com/cbeuw/Cloak/internal/verifkit"
)

type c12St struct {
	Tag     uint64 `json:"tag"`
	Up      []int  `json:"up"`
	Down    []int  `json:"down"`
	CloseBy string `json:"close_by,omitempty"`

	mu             sync.Mutex
	upGot, downGot []byte
	upDone, dnDone bool
}

type c12Fault struct {
	Step  int    `json:"step"`  // index of the routed record at which the fault strikes (-1: none)
	Class string `json:"class"` // boundary, tlshdr, framehdr, payload, tag
	Kind  string `json:"kind"`  // reset, eof, close-cli, close-srv
}

type c12Scn struct {
	Cfg     rigCfg   `json:"cfg"`
	Streams []*c12St `json:"streams"`
	Fault   c12Fault `json:"fault"`
}

type opTracker struct {
	mu   sync.Mutex
	open map[string]int
}

func (o *opTracker) begin(n string) {
	o.mu.Lock()
	if o.open == nil {
		o.open = map[string]int{}
	}
	o.open[n]++
	o.mu.Unlock()
}
func (o *opTracker) end(n string) {
	o.mu.Lock()
	o.open[n]--
	if o.open[n] == 0 {
		delete(o.open, n)
	}
	o.mu.Unlock()
}
func (o *opTracker) pending() []string {
	o.mu.Lock()
	defer o.mu.Unlock()
	var l []string
	for k, v := range o.open {
		l = append(l, fmt.Sprintf("%s x%d", k, v))
	}
	sort.Strings(l)
	return l
}

func readUntilErr(rd io.Reader, dst *[]byte, done *bool, mu *sync.Mutex, rng *rand.Rand) {
	buf := make([]byte, 1+rng.IntN(20000))
	for {
		n, err := rd.Read(buf)
		mu.Lock()
		*dst = append(*dst, buf[:n]...)
		if err != nil {
			*done = true
			mu.Unlock()
			return
		}
		mu.Unlock()
	}
}

func cutOffset(class string, L int, tagLen int, rng *rand.Rand) int {
	n := 0
	switch class {
	case "boundary":
		n = 0
	case "tlshdr":
		n = 1 + rng.IntN(4)
	case "framehdr":
		n = 5 + 1 + rng.IntN(13)
	case "payload":
		if L-19-tagLen > 1 {
			n = 19 + rng.IntN(L-19-tagLen)
		} else {
			n = 19
		}
	case "tag":
		n = L - 1 - rng.IntN(tagLen)
	}
	if n > L-1 {
		n = L - 1
	}
	if n < 0 {
		n = 0
	}
	return n
}

// c12Run executes one scenario; returns number of routed records and a violation.
func c12Run(t *testing.T, r *vk.Reporter, id string, sc *c12Scn) (steps int, kind, detail string) {
	rng := r.Rand("c12run", id)
	var vmu sync.Mutex
	setV := func(k, d string) {
		vmu.Lock()
		if kind == "" {
			kind, detail = k, d
		}
		vmu.Unlock()
	}
	p := inBubble(t, func() {
		cfg := sc.Cfg
		cfg.Inactivity = 100 * time.Hour
		g := newRigA(cfg, rng)
		for i := 0; i < g.nconn(); i++ {
			g.addConn()
		}
		plans := map[uint64]*c12St{}
		for _, s := range sc.Streams {
			plans[s.Tag] = s
		}
		var ops opTracker
		faulted := false
		count := 0
		var wcount atomic.Int64
		if len(sc.Fault.Kind) > 5 && sc.Fault.Kind[:5] == "send-" {
			g.net.BeforeWrite = func(c *vk.Conn) {
				if int(wcount.Add(1))-1 == sc.Fault.Step {
					vmu.Lock()
					faulted = true
					vmu.Unlock()
					c.Pipe().Break(sc.Fault.Kind[5:])
				}
			}
		}
		g.onRelease = func(it *vk.Item) bool {
			k := count
			count++
			if sc.Fault.Step != k || (len(sc.Fault.Kind) > 5 && sc.Fault.Kind[:5] == "send-") {
				return false
			}
			vmu.Lock()
			faulted = true
			vmu.Unlock()
			switch sc.Fault.Kind {
			case "close-cli":
				ops.begin("cli.Close")
				g.cli.Close()
				ops.end("cli.Close")
				return false
			case "close-srv":
				ops.begin("srv.Close")
				g.srv.Close()
				ops.end("srv.Close")
				return false
			}
			n := cutOffset(sc.Fault.Class, len(it.Data), g.ref.TagLen(), rng)
			g.note(it)
			g.net.ReleaseCut(it, n, sc.Fault.Kind)
			return true
		}
		// acceptor side: two goroutines block in Accept (every blocked accept must return on teardown)
		for acc := 0; acc < 2; acc++ {
			ops.begin("srv.Accept-loop")
			go func() {
				defer ops.end("srv.Accept-loop")
				for {
					conn, err := g.srv.Accept()
					if err != nil {
						return
					}
					ops.begin("acceptor-stream")
					go func() {
						defer ops.end("acceptor-stream")
						hdr := make([]byte, 16)
						if _, err := io.ReadFull(conn, hdr); err != nil {
							return // fault before the header was complete
						}
						tag, _ := rigHeader(hdr)
						s := plans[tag]
						if s == nil {
							setV("corrupt-header", fmt.Sprintf("accepted stream with unknown header tag %#x", tag))
							return
						}
						s.mu.Lock()
						s.upGot = append(s.upGot, hdr...)
						s.mu.Unlock()
						ops.begin("acceptor-writer")
						go func() {
							defer ops.end("acceptor-writer")
							writeChunks(conn, s.Tag|downBit, sum(s.Down), s.Down, func(string, ...any) {})
							if s.CloseBy == "acceptor" {
								conn.Close()
							}
						}()
						readUntilErr(conn, &s.upGot, &s.upDone, &s.mu, rand.New(rand.NewPCG(tag, 1)))
					}()
				}
			}()
		}
		// opener side
		for _, s := range sc.Streams {
			s := s
			ops.begin("cli.OpenStream")
			st, err := g.cli.OpenStream()
			ops.end("cli.OpenStream")
			if err != nil {
				continue
			}
			ops.begin("opener-writer")
			go func() {
				defer ops.end("opener-writer")
				writeChunks(st, s.Tag, sum(s.Up), s.Up, func(string, ...any) {})
				if s.CloseBy == "opener" {
					st.Close()
				}
			}()
			ops.begin("opener-reader")
			go func() {
				defer ops.end("opener-reader")
				readUntilErr(st, &s.downGot, &s.dnDone, &s.mu, rand.New(rand.NewPCG(s.Tag, 2)))
			}()
		}
		g.settle()
		steps = count
		vmu.Lock()
		wasFaulted := faulted
		vmu.Unlock()
		if sc.Fault.Step < 0 || !wasFaulted {
			// fault-free reference run (or the step lies beyond this run): tear down by closing one side
			ops.begin("cli.Close")
			g.cli.Close()
			ops.end("cli.Close")
			g.settle()
		}
		time.Sleep(10 * time.Minute) // virtual: far above every Cloak timer except the disabled inactivity timer
		g.settle()

		// ---- oracle ----
		for _, s := range sc.Streams {
			s.mu.Lock()
			wantUp := make([]byte, sum(s.Up))
			rigFill(s.Tag, int64(len(wantUp)), 0, wantUp)
			wantDn := make([]byte, sum(s.Down))
			rigFill(s.Tag|downBit, int64(len(wantDn)), 0, wantDn)
			if !isPrefix(s.upGot, wantUp) {
				setV("not-a-prefix", fmt.Sprintf("acceptor-side reader of stream %#x received %d bytes that are not a prefix of the %d written", s.Tag, len(s.upGot), len(wantUp)))
			}
			if !isPrefix(s.downGot, wantDn) {
				setV("not-a-prefix", fmt.Sprintf("opener-side reader of stream %#x received %d bytes that are not a prefix of the %d written", s.Tag, len(s.downGot), len(wantDn)))
			}
			r.Count("bytes_checked", int64(len(s.upGot)+len(s.downGot)))
			s.mu.Unlock()
		}
		if pend := ops.pending(); len(pend) > 0 {
			setV("op-blocked", fmt.Sprintf("operations still blocked 10 virtual minutes after the fault/close: %v", pend))
		}
		if !g.cli.IsClosed() || !g.srv.IsClosed() {
			setV("session-not-closed", fmt.Sprintf("after the fault/close client session closed=%v, server session closed=%v", g.cli.IsClosed(), g.srv.IsClosed()))
		}
		for name, sesh := range map[string]*Session{"client": g.cli, "server": g.srv} {
			if sesh.IsClosed() {
				if st, err := sesh.OpenStream(); err == nil {
					setV("open-after-close", fmt.Sprintf("OpenStream succeeded on the %s session after IsClosed() was true (stream %v)", name, st != nil))
				}
			}
		}
		for _, pp := range g.pipes {
			a, b := pp.ClosedBy()
			if !a && !b {
				setV("conn-left-open", fmt.Sprintf("connection %d of the torn-down session was closed by neither end", pp.Idx))
			} else if !a || !b {
				// each session owns its end of every connection: "all of the session's connections end up
				// closed" holds per side (an end that is never closed is a leaked socket)
				setV("conn-end-left-open", fmt.Sprintf("connection %d: both sessions are closed and quiescent, but the %s session never closed its end of the connection (client end closed=%v, server end closed=%v)", pp.Idx, map[bool]string{true: "server", false: "client"}[a], a, b))
			}
		}
		r.Distinct("arrival_orders", vk.Hash64(g.arrivals, sc.Fault))
		for _, pp := range g.pipes {
			pp.SetRouter(false)
			pp.A.Close()
			pp.B.Close()
		}
		synctest_Wait()
	})
	if p != nil && kind == "" && !isBubbleLeftover(rigPanicStr(p)) {
		kind, detail = "panic", rigPanicStr(p)
	}
	return
}

func c12Scenario(rng *rand.Rand, i int) *c12Scn {
	methods := []byte{EncryptionMethodPlain, EncryptionMethodAES256GCM, EncryptionMethodChaha20Poly1305, EncryptionMethodAES128GCM}
	sc := &c12Scn{}
	sc.Cfg = rigCfg{Method: methods[i%4], NumConn: 1 + (i/4)%4, Router: true, Policy: []string{"random", "lifo", "starve", "fifo"}[rng.IntN(4)], Seg: []string{"all", "random", "small"}[rng.IntN(3)]}
	ns := 1 + rng.IntN(4)
	if i%7 == 0 {
		ns = 6
	}
	small := []int{16, 17, 40, 300, 1, 2, 5000, rigMax, rigMax + 1}
	for k := 0; k < ns; k++ {
		s := &c12St{Tag: uint64(0xC12000+k)<<8 | uint64(i&0xff) | 1<<40}
		s.Up = []int{16 + rng.IntN(40)}
		for j := 0; j < rng.IntN(3); j++ {
			s.Up = append(s.Up, small[rng.IntN(len(small))])
		}
		for j := 0; j < rng.IntN(3); j++ {
			s.Down = append(s.Down, small[rng.IntN(len(small))])
		}
		s.CloseBy = []string{"", "opener", "acceptor", ""}[rng.IntN(4)]
		sc.Streams = append(sc.Streams, s)
	}
	return sc
}

func (sc *c12Scn) clone(f c12Fault) *c12Scn {
	n := &c12Scn{Cfg: sc.Cfg, Fault: f}
	for _, s := range sc.Streams {
		n.Streams = append(n.Streams, &c12St{Tag: s.Tag, Up: s.Up, Down: s.Down, CloseBy: s.CloseBy})
	}
	return n
}

// ---- live-session invariants: stream count and inactivity timer -------------------------------

func c12OpenTable(s *Session) int {
	s.streamsM.Lock()
	defer s.streamsM.Unlock()
	n := 0
	for _, st := range s.streams {
		if st != nil {
			n++
		}
	}
	return n
}

func c12Count(t *testing.T, r *vk.Reporter, id string, cfg rigCfg, nOpen int) (kind, detail string) {
	rng := r.Rand("c12count", id)
	p := inBubble(t, func() {
		cfg.Inactivity = 100 * time.Hour
		g := newRigA(cfg, rng)
		for i := 0; i < g.nconn(); i++ {
			g.addConn()
		}
		var mu sync.Mutex
		var acc []*Stream
		go func() {
			for {
				c, err := g.srv.Accept()
				if err != nil {
					return
				}
				mu.Lock()
				acc = append(acc, c.(*Stream))
				mu.Unlock()
			}
		}()
		var opened []*Stream
		model := 0
		check := func(when string) {
			g.settle()
			for name, s := range map[string]*Session{"client": g.cli, "server": g.srv} {
				if int(s.streamCount()) != model || c12OpenTable(s) != model {
					kind, detail = "stream-count", fmt.Sprintf("%s: %s session reports %d active streams, its table holds %d open streams, the model says %d are open", when, name, s.streamCount(), c12OpenTable(s), model)
				}
			}
			r.Count("quiescent_points_checked", 1)
		}
		for round := 0; round < 3 && kind == ""; round++ {
			for i := 0; i < nOpen; i++ {
				st, err := g.cli.OpenStream()
				if err != nil {
					kind, detail = "open-failed", err.Error()
					return
				}
				st.Write([]byte{byte(i), 1, 2})
				opened = append(opened, st)
				model++
			}
			check(fmt.Sprintf("round %d after opening", round))
			// close a random subset, from either side
			mu.Lock()
			accCopy := append([]*Stream{}, acc...)
			mu.Unlock()
			closedIDs := map[uint32]bool{}
			for i := 0; i < len(opened); i++ {
				if rng.IntN(2) == 0 {
					continue
				}
				st := opened[i]
				if closedIDs[st.id] || st.isClosed() {
					continue
				}
				if rng.IntN(2) == 0 {
					st.Close()
				} else {
					for _, a := range accCopy {
						if a.id == st.id {
							a.Close()
						}
					}
				}
				closedIDs[st.id] = true
				model--
			}
			check(fmt.Sprintf("round %d after closing %d", round, len(closedIDs)))
			var keep []*Stream
			for _, st := range opened {
				if !closedIDs[st.id] {
					keep = append(keep, st)
				}
			}
			opened = keep
		}
		g.closeAll()
		synctest_Wait()
	})
	if p != nil && kind == "" && !isBubbleLeftover(rigPanicStr(p)) {
		kind, detail = "panic", rigPanicStr(p)
	}
	return
}

// c12Timer: a multiplexed session never closes on its timer while a stream is open; a singleplex
// session closes with its stream.
func c12Timer(t *testing.T, r *vk.Reporter, id string, cfg rigCfg, offset time.Duration, T time.Duration) (kind, detail string) {
	rng := r.Rand("c12timer", id)
	p := inBubble(t, func() {
		cfg.Inactivity = T
		g := newRigA(cfg, rng)
		for i := 0; i < g.nconn(); i++ {
			g.addConn()
		}
		go func() {
			for {
				c, err := g.srv.Accept()
				if err != nil {
					return
				}
				go io.Copy(io.Discard, c)
			}
		}()
		alive := func(when string) bool {
			g.settle()
			if g.cli.IsClosed() || g.srv.IsClosed() {
				kind, detail = "closed-with-open-stream", fmt.Sprintf("%s: session closed (client=%v server=%v, %q/%q) while a stream is open", when, g.cli.IsClosed(), g.srv.IsClosed(), g.cli.TerminalMsg(), g.srv.TerminalMsg())
				return false
			}
			return true
		}
		// phase 1: stream opened `offset` after session creation (a timer is armed at creation)
		time.Sleep(offset)
		g.settle()
		st, err := g.cli.OpenStream()
		if err != nil {
			if offset < T {
				kind, detail = "closed-early", fmt.Sprintf("session refused a stream %v after creation although the inactivity timeout is %v: %v", offset, T, err)
			}
			return
		}
		st.Write([]byte("hello"))
		if !alive("after open") {
			return
		}
		for k := 0; k < 10; k++ {
			time.Sleep(T)
			if !alive(fmt.Sprintf("idle with an open stream for %d x timeout", k+1)) {
				return
			}
		}
		if cfg.NumConn == 0 {
			// singleplex: a second stream is refused (whatever the answer, it must not upset the
			// bookkeeping), and closing the only stream closes the session
			if st2, err := g.cli.OpenStream(); err == nil && st2 != nil {
				st2.Close()
			}
			st.Close()
			g.settle()
			if !g.cli.IsClosed() {
				kind, detail = "singleplex-outlives-stream", "singleplex session still open after its only stream was closed"
			}
			g.closeAll()
			return
		}
		// phase 2: close, then reopen `offset` after the close (a timer is armed by the close)
		st.Close()
		g.settle()
		time.Sleep(offset)
		g.settle()
		st2, err := g.cli.OpenStream()
		if err != nil {
			if offset < T {
				kind, detail = "closed-early", fmt.Sprintf("session closed %v after its last stream closed although the timeout is %v: %v", offset, T, err)
			}
			g.closeAll()
			return
		}
		st2.Write([]byte("again"))
		g.settle()
		if offset < T {
			for k := 0; k < 10; k++ {
				time.Sleep(T)
				if !alive(fmt.Sprintf("second stream idle for %d x timeout", k+1)) {
					return
				}
			}
		}
		r.Count("timer_phases_checked", 1)
		g.closeAll()
		synctest_Wait()
	})
	if p != nil && kind == "" && !isBubbleLeftover(rigPanicStr(p)) {
		kind, detail = "panic", rigPanicStr(p)
	}
	return
}

// c12OpenVsClose: session Close inside OpenStream's check-then-act window (hook).
func c12OpenVsClose(t *testing.T, r *vk.Reporter, id string, cfg rigCfg, passive bool) (kind, detail string) {
	rng := r.Rand("c12ovc", id)
	p := inBubble(t, func() {
		cfg.Inactivity = 100 * time.Hour
		g := newRigA(cfg, rng)
		for i := 0; i < g.nconn(); i++ {
			g.addConn()
		}
		fired := false
		verifhook.Set("sesh.OpenStream.checked", func() {
			if fired {
				return
			}
			fired = true
			if passive {
				g.cli.passiveClose()
			} else {
				g.cli.Close()
			}
		})
		st, err := g.cli.OpenStream()
		verifhook.Set("sesh.OpenStream.checked", nil)
		if !fired {
			kind, detail = "hook-not-reached", "sesh.OpenStream.checked was not reached"
			return
		}
		r.Count("forced_open_vs_close_windows", 1)
		if err == nil {
			// the session was closed (and IsClosed observable) before OpenStream returned
			var got []byte
			done := false
			var mu sync.Mutex
			go readUntilErr(st, &got, &done, &mu, rand.New(rand.NewPCG(1, 1)))
			g.settle()
			time.Sleep(10 * time.Minute)
			g.settle()
			mu.Lock()
			d := done
			mu.Unlock()
			kind, detail = "open-after-close", fmt.Sprintf("OpenStream returned a stream with nil error although the session had been closed before it returned (IsClosed()=%v); a Read on that stream returned within 10 virtual minutes: %v", g.cli.IsClosed(), d)
		}
		g.closeAll()
		synctest_Wait()
	})
	if p != nil && kind == "" && !isBubbleLeftover(rigPanicStr(p)) {
		kind, detail = "panic", rigPanicStr(p)
	}
	return
}

// c12AddVsClose: session Close while addConn is parked; the added connection must end up closed.
func c12AddVsClose(t *testing.T, r *vk.Reporter, id string, cfg rigCfg) (kind, detail string) {
	rng := r.Rand("c12avc", id)
	p := inBubble(t, func() {
		cfg.Inactivity = 100 * time.Hour
		g := newRigA(cfg, rng)
		for i := 0; i < g.nconn(); i++ {
			g.addConn()
		}
		fired := false
		g.beforeCliAdd = func() {
			verifhook.Set("sb.addConn.mid", func() {
				if fired {
					return
				}
				fired = true
				g.cli.Close()
			})
		}
		g.addConn()
		g.beforeCliAdd = nil
		verifhook.Set("sb.addConn.mid", nil)
		g.settle()
		time.Sleep(10 * time.Minute)
		g.settle()
		if !fired {
			kind, detail = "hook-not-reached", "sb.addConn.mid not reached"
			return
		}
		r.Count("forced_add_vs_close_windows", 1)
		for _, pp := range g.pipes {
			a, b := pp.ClosedBy()
			if !a && !b {
				kind, detail = "conn-left-open", fmt.Sprintf("connection %d (added while the session was closing) was closed by neither end", pp.Idx)
			} else if !a || !b {
				kind, detail = "conn-end-left-open", fmt.Sprintf("connection %d (added while the session was closing): one session never closed its end (client end closed=%v, server end closed=%v)", pp.Idx, a, b)
			}
		}
		if !g.srv.IsClosed() {
			kind, detail = "session-not-closed", "peer session still open after the other side closed"
		}
		g.closeAll()
		synctest_Wait()
	})
	if p != nil && kind == "" && !isBubbleLeftover(rigPanicStr(p)) {
		kind, detail = "panic", rigPanicStr(p)
	}
	return
}

func TestVerif_C12(t *testing.T) {
	r := vk.Open()
	defer r.Close()
	methods := []byte{EncryptionMethodPlain, EncryptionMethodAES256GCM, EncryptionMethodChaha20Poly1305, EncryptionMethodAES128GCM}
	classes := []string{"boundary", "tlshdr", "framehdr", "payload", "tag"}
	kinds := []string{"reset", "eof", "close-cli", "close-srv", "send-reset", "send-eof"}
	nscn := r.Pick(8, 240)
	for i := 0; i < nscn; i++ {
		rng := r.Rand("c12scn", i)
		base := c12Scenario(rng, i)
		// reference run to learn the number of routed records (deterministic for a plan)
		refID := fmt.Sprintf("scn-%d/reference", i)
		steps := 0
		{
			sc := base.clone(c12Fault{Step: -1})
			var k, d string
			steps, k, d = c12Run(t, r, refID, sc)
			if r.Mine(refID) {
				r.Case(refID, sc)
				r.Distinct("cases", vk.Hash64("ref", i))
				if k != "" {
					r.Violation(refID, "C12:"+k, d+fmt.Sprintf("; fault-free scenario %d", i), sc)
				} else {
					r.Pass(refID)
				}
			}
		}
		for step := 0; step <= steps; step++ { // step == steps: the write of the final Close's own notice fails
			for ci, class := range classes {
				for ki, kind := range kinds {
					if len(kind) > 5 && (kind[:5] == "close" || kind[:5] == "send-") && ci > 0 {
						continue
					}
					if step == steps && !(len(kind) > 5 && kind[:5] == "send-") {
						continue
					}
					if !r.Thorough() {
						// quick: every boundary with reset and every send with reset; other classes/kinds on a rotating subset
						if !(class == "boundary" && (kind == "reset" || kind == "send-reset")) && (step+ci+ki+i)%5 != 0 {
							continue
						}
					}
					f := c12Fault{Step: step, Class: class, Kind: kind}
					id := fmt.Sprintf("scn-%d/step=%d/%s/%s", i, step, class, kind)
					if !r.Mine(id) {
						continue
					}
					sc := base.clone(f)
					r.Case(id, sc)
					_, k, d := c12Run(t, r, id, sc)
					r.Distinct("cases", vk.Hash64(i, f))
					r.Count("fault_runs", 1)
					if step == steps/2 && class == "payload" {
						r.Sample(sc)
					}
					if k != "" {
						r.Violation(id, "C12:"+k, fmt.Sprintf("%s; fault %+v in scenario %d (cfg %+v, %d streams)", d, f, i, sc.Cfg, len(sc.Streams)), sc)
					} else {
						r.Pass(id)
					}
				}
			}
		}
	}
	// Close while the path to the peer is stalled and the send window is full: the closing notice
	// cannot leave, yet everything blocked on the closing side must return at once
	for i := 0; i < r.Pick(8, 120); i++ {
		id := fmt.Sprintf("close-under-backpressure-%d", i)
		if !r.Mine(id) {
			continue
		}
		cfg := rigCfg{Method: methods[i%4], NumConn: 1 + i%3, Seg: "all", Window: []int{4096, 16384}[i%2]}
		r.Case(id, cfg)
		k, d := c12CloseBackpressure(t, r, id, cfg, i%2 == 0)
		r.Distinct("cases", vk.Hash64("cbp", cfg, i))
		r.Count("close_under_backpressure_cases", 1)
		if k != "" {
			r.Violation(id, "C12:"+k, fmt.Sprintf("%s; cfg %+v", d, cfg), cfg)
		} else {
			r.Pass(id)
		}
	}
	// stream-count invariant
	for i := 0; i < r.Pick(12, 400); i++ {
		id := fmt.Sprintf("count-%d", i)
		if !r.Mine(id) {
			continue
		}
		cfg := rigCfg{Method: methods[i%4], NumConn: 1 + i%4, Router: i%2 == 0, Policy: "random", Seg: "all"}
		r.Case(id, cfg)
		k, d := c12Count(t, r, id, cfg, 1+i%7)
		r.Distinct("cases", vk.Hash64("count", i))
		if k != "" {
			r.Violation(id, "C12:"+k, d, cfg)
		} else {
			r.Pass(id)
		}
	}
	// inactivity timer phases
	T := 30 * time.Second
	offs := []time.Duration{0, T - time.Millisecond, T - time.Nanosecond, T, T + time.Millisecond, T / 2, 2*T + time.Second}
	for i, off := range offs {
		for _, nc := range []int{0, 1, 3} {
			id := fmt.Sprintf("timer/offset=%v/numconn=%d", off, nc)
			if !r.Mine(id) {
				continue
			}
			cfg := rigCfg{Method: methods[i%4], NumConn: nc, Seg: "all"}
			r.Case(id, map[string]any{"cfg": cfg, "offset": off.String()})
			k, d := c12Timer(t, r, id, cfg, off, T)
			r.Distinct("cases", vk.Hash64("timer", off, nc))
			if k != "" {
				r.Violation(id, "C12:"+k, d, nil)
			} else {
				r.Pass(id)
			}
		}
	}
	// forced check-then-act windows
	for i := 0; i < 4; i++ {
		id := fmt.Sprintf("open-vs-close-%d", i)
		if r.Mine(id) {
			cfg := rigCfg{Method: methods[i%4], NumConn: 1 + i%2, Seg: "all"}
			r.Case(id, cfg)
			k, d := c12OpenVsClose(t, r, id, cfg, i >= 2)
			r.Distinct("cases", vk.Hash64("ovc", i))
			if k != "" {
				r.Violation(id, "C12:"+k, d, cfg)
			} else {
				r.Pass(id)
			}
		}
		id = fmt.Sprintf("add-vs-close-%d", i)
		if r.Mine(id) {
			cfg := rigCfg{Method: methods[i%4], NumConn: 1 + i%2, Seg: "all"}
			r.Case(id, cfg)
			k, d := c12AddVsClose(t, r, id, cfg)
			r.Distinct("cases", vk.Hash64("avc", i))
			if k != "" {
				r.Violation(id, "C12:"+k, d, cfg)
			} else {
				r.Pass(id)
			}
		}
	}
}

// c12CloseBackpressure: one side calls Session.Close while its connections are back-pressured (the
// network delivers nothing and the send windows are full). Blocked Read and Accept on that side
// must return and OpenStream must be refused as soon as Close has been called - not only once the
// closing notice could finally be sent. Afterwards the path recovers and both sessions must end up
// closed with every connection end closed.
func c12CloseBackpressure(t *testing.T, r *vk.Reporter, id string, cfg rigCfg, byClient bool) (kind, detail string) {
	rng := r.Rand("c12b", id)
	p, leftover := vk.InBubble(t, func() {
		cfg.Inactivity = 100 * time.Hour
		g := newRigA(cfg, rng)
		for i := 0; i < g.nconn(); i++ {
			g.addConn()
		}
		st, err := g.cli.OpenStream()
		if err != nil {
			kind, detail = "harness", err.Error()
			return
		}
		st.Write([]byte("hello"))
		acc, err := g.srv.Accept()
		if err != nil {
			kind, detail = "harness", err.Error()
			return
		}
		io.ReadFull(acc, make([]byte, 5))
		me, mine, dir, name := g.cli, st, 0, "client"
		if !byClient {
			me, mine, dir, name = g.srv, acc.(*Stream), 1, "server"
		}
		var readRet, accRet, closeRet, writeRet bool
		go func() { mine.Read(make([]byte, 10)); readRet = true }()
		go func() { me.Accept(); accRet = true }()
		vk.Wait()
		for _, pp := range g.pipes {
			pp.Stall(dir, true)
		}
		go func() { mine.Write(make([]byte, 200000)); writeRet = true }() // fills every send window, then blocks
		vk.Wait()
		if writeRet {
			kind, detail = "harness", "the large write was not blocked by the stalled path"
			return
		}
		go func() { me.Close(); closeRet = true }()
		vk.Wait()
		switch {
		case !me.IsClosed():
			kind, detail = "close-has-no-effect-yet", fmt.Sprintf("%s.Close() was called while its connections are back-pressured: the session does not even report closed until the notice can be sent", name)
		case !readRet:
			kind, detail = "op-blocked", fmt.Sprintf("%s.Close() was called while its connections are back-pressured: a Read that was blocked on one of its streams has not returned", name)
		case !accRet:
			kind, detail = "op-blocked", fmt.Sprintf("%s.Close() was called while its connections are back-pressured: a blocked Accept has not returned", name)
		}
		// (the Write that is stuck inside the stalled connection returns when the connection is closed,
		// which the closing side does after its notice: judged after the path has recovered)
		if kind == "" {
			if s2, err := me.OpenStream(); err == nil {
				kind, detail = "open-after-close", fmt.Sprintf("OpenStream succeeded on the %s session after Close had been called (stream %v)", name, s2 != nil)
			}
		}
		for _, pp := range g.pipes {
			pp.Stall(dir, false)
		}
		vk.Wait()
		time.Sleep(10 * time.Minute)
		vk.Wait()
		if kind == "" {
			switch {
			case !closeRet:
				kind, detail = "op-blocked", "Close never returned although the path recovered"
			case !writeRet:
				kind, detail = "op-blocked", "the Write that was blocked when Close was called never returned although the path recovered and the session closed"
			case !g.cli.IsClosed() || !g.srv.IsClosed():
				kind, detail = "session-not-closed", fmt.Sprintf("after Close and recovery of the path: client closed=%v, server closed=%v", g.cli.IsClosed(), g.srv.IsClosed())
			}
		}
		g.closeAll()
		vk.Wait()
	})
	if p != nil && !leftover && kind == "" {
		kind, detail = "panic", fmt.Sprint(p)
	}
	return
}
