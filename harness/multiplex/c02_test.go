package multiplex

// C02 - stream reassembly is independent of the order in which frames arrive.
// In-package driver on NewStreamBuffer(): black-box use of Write/Read/Close only; blocking is
// decided inside a synctest bubble (a read the model says must succeed but that is still parked
// after synctest.Wait() is a violation).

import (
	"bytes"
	"encoding/binary"
	"fmt"
	"io"
	"math/rand/v2"
	"reflect"
	"runtime"
	"sync"
	"sync/atomic"
	"testing"
	"testing/synctest"
	"time"
	"unsafe"

	vk "github.com/cbeuw/Cloak/internal/verifkit"
)

type c02Sched struct {
	N       int    `json:"n"`
	Base    uint64 `json:"base"`
	Closing bool   `json:"closing_last"`
	Perm    []int  `json:"arrival_order"`
	Mask    uint64 `json:"read_after_write_mask"`
	Sizes   []int  `json:"payload_sizes"`
}

// c02SetBase presets the buffer's next expected sequence number through reflection on the field
// name; returns false when the field is absent (those bases are then skipped, not failed).
func c02SetBase(sb *streamBuffer, base uint64) bool {
	v := reflect.ValueOf(sb).Elem()
	f := v.FieldByName("nextRecvSeq")
	if !f.IsValid() || f.Kind() != reflect.Uint64 {
		return false
	}
	reflect.NewAt(f.Type(), unsafe.Pointer(f.UnsafeAddr())).Elem().SetUint(base)
	return true
}

func c02Payload(i int, size int) []byte {
	b := make([]byte, size)
	vk.Fill(uint64(0xC02000+i), 8, b)
	b[0] = byte(i) // make the frame index visible at the start of each payload
	return b
}

// c02Run executes one schedule inside the current bubble. It returns "" or a violation (kind, detail).
func c02Run(s c02Sched, rng *rand.Rand) (kind, detail string) {
	sb := NewStreamBuffer()
	if s.Base != 0 && !c02SetBase(sb, s.Base) {
		return "skip", ""
	}
	payloads := make([][]byte, s.N)
	var expect []byte
	dataFrames := s.N
	if s.Closing {
		dataFrames = s.N - 1
	}
	for i := 0; i < s.N; i++ {
		payloads[i] = c02Payload(i, s.Sizes[i])
		if i < dataFrames {
			expect = append(expect, payloads[i]...)
		}
	}
	arrived := make([]bool, s.N)
	prefixFrames := 0 // frames handed over according to the model
	prefixBytes := 0
	pos := 0
	closedSeen := false
	var got []byte

	read := func(max int, wantEOF bool) (string, string) {
		buf := make([]byte, max)
		var n int
		var err error
		done := make(chan struct{})
		go func() { n, err = sb.Read(buf); close(done) }()
		synctest.Wait()
		select {
		case <-done:
		default:
			sb.Close() // release the parked reader
			<-done
			return "read-parked", fmt.Sprintf("Read still parked although %d bytes of the in-order prefix were unread (or the buffer was closed)", prefixBytes-pos)
		}
		if wantEOF {
			if n != 0 || err != io.EOF {
				return "no-eof", fmt.Sprintf("after close and full drain Read returned (%d, %v), want (0, EOF)", n, err)
			}
			return "", ""
		}
		if err != nil || n <= 0 {
			return "read-error", fmt.Sprintf("Read returned (%d, %v) with %d bytes available", n, err, prefixBytes-pos)
		}
		if n > prefixBytes-pos {
			return "early-bytes", fmt.Sprintf("Read returned %d bytes but only %d belong to the in-order prefix", n, prefixBytes-pos)
		}
		if !bytes.Equal(buf[:n], expect[pos:pos+n]) {
			i := 0
			for i < n && buf[i] == expect[pos+i] {
				i++
			}
			return "wrong-bytes", fmt.Sprintf("byte %d of the stream differs (got %#x want %#x)", pos+i, buf[i], expect[pos+i])
		}
		got = append(got, buf[:n]...)
		pos += n
		return "", ""
	}

	for step, fi := range s.Perm {
		scratch := append([]byte{}, payloads[fi]...)
		f := &Frame{StreamID: 7, Seq: s.Base + uint64(fi), Payload: scratch}
		if s.Closing && fi == s.N-1 {
			f.Closing = closingStream
		}
		toBeClosed, err := sb.Write(f)
		for i := range scratch { // the caller reuses its buffer after Write returns
			scratch[i] = 0xEE
		}
		f.Payload = nil
		if err != nil {
			return "write-error", fmt.Sprintf("Write of frame %d (arrival %d) failed: %v", fi, step, err)
		}
		arrived[fi] = true
		for prefixFrames < s.N && arrived[prefixFrames] {
			if !(s.Closing && prefixFrames == s.N-1) {
				prefixBytes += len(payloads[prefixFrames])
			}
			prefixFrames++
		}
		wantClose := s.Closing && prefixFrames == s.N && !closedSeen
		if toBeClosed && !wantClose {
			return "early-close", fmt.Sprintf("toBeClosed reported at arrival %d (frame %d) while frames below the closing frame are missing (prefix=%d of %d)", step, fi, prefixFrames, s.N)
		}
		if !toBeClosed && wantClose {
			return "missing-close", fmt.Sprintf("closing frame became next in line at arrival %d but toBeClosed was not reported", step)
		}
		if toBeClosed {
			closedSeen = true
			sb.Close() // what Stream.recvFrame -> passiveClose does
		}
		if s.Mask&(1<<uint(step)) != 0 && prefixBytes-pos > 0 {
			max := 1 + rng.IntN(prefixBytes-pos+3)
			if k, d := read(max, false); k != "" {
				return k, d
			}
		}
	}
	if prefixFrames != s.N {
		return "harness", "model did not complete the prefix"
	}
	for pos < len(expect) {
		max := 1 + rng.IntN(len(expect)-pos+5)
		if k, d := read(max, false); k != "" {
			return k, d
		}
	}
	if !bytes.Equal(got, expect) {
		return "wrong-bytes", "concatenation differs"
	}
	if s.Closing {
		if k, d := read(16, true); k != "" {
			return k, d
		}
	}
	return "", ""
}

func c02Perms(n int, f func(p []int)) {
	p := make([]int, n)
	for i := range p {
		p[i] = i
	}
	var rec func(k int)
	rec = func(k int) {
		if k == n {
			f(p)
			return
		}
		for i := k; i < n; i++ {
			p[k], p[i] = p[i], p[k]
			rec(k + 1)
			p[k], p[i] = p[i], p[k]
		}
	}
	rec(0)
}

func isIdentity(p []int) bool {
	for i, v := range p {
		if i != v {
			return false
		}
	}
	return true
}

func TestVerif_C02(t *testing.T) {
	r := vk.Open()
	defer r.Close()
	maxExh := r.Pick(6, 7)
	bases := []uint64{0, 1<<32 - 3, 1<<32 - 1, 1<<63 - 2}
	basesSkipped := false

	runBlock := func(id string, params any, scheds []c02Sched) {
		r.Case(id, params)
		var vkind, vdetail string
		var vs c02Sched
		rng := r.Rand("c02", id)
		func() {
			defer func() { recover() }() // synctest "blocked goroutines" cannot happen here, but stay safe
			synctest.Test(t, func(t *testing.T) {
				for _, s := range scheds {
					k, d := c02Run(s, rng)
					if k == "skip" {
						basesSkipped = true
						continue
					}
					r.Count("evaluations", 1)
					if !isIdentity(s.Perm) {
						r.Count("distinct_enumerated", 1)
					}
					if k != "" && vkind == "" {
						vkind, vdetail, vs = k, d, s
					}
				}
			})
		}()
		if vkind != "" {
			r.Violation(id, "C02:"+vkind, fmt.Sprintf("%s; schedule %+v", vdetail, vs), vs)
		} else {
			r.Pass(id)
		}
		if len(scheds) > 0 {
			r.Sample(scheds[len(scheds)/2])
		}
	}

	sizesFor := func(rng *rand.Rand, n int) []int {
		sz := make([]int, n)
		for i := range sz {
			switch rng.IntN(4) {
			case 0:
				sz[i] = 1
			case 1:
				sz[i] = 1 + rng.IntN(16)
			case 2:
				sz[i] = 1 + rng.IntN(300)
			default:
				sz[i] = 1 + rng.IntN(3000)
			}
			if n <= 12 && rng.IntN(12) == 0 {
				// everything the 20480-byte connection receive buffer can hold, not only what this
				// implementation's own sender would put into one frame
				sz[i] = 16000 + rng.IntN(4400)
			}
		}
		return sz
	}

	// exhaustive part: all n! arrival orders
	for n := 1; n <= maxExh; n++ {
		for _, closing := range []bool{false, true} {
			for bi, base := range bases {
				if bi > 0 && n > 5 {
					continue
				}
				var masks []uint64
				rngm := r.Rand("c02masks", n)
				if n <= 5 {
					for m := uint64(0); m < 1<<uint(n); m++ {
						masks = append(masks, m)
					}
				} else {
					masks = []uint64{0, 1<<uint(n) - 1}
					for len(masks) < 8 {
						masks = append(masks, rngm.Uint64N(1<<uint(n)))
					}
				}
				id := fmt.Sprintf("exh/n=%d/closing=%v/base=%d", n, closing, base)
				if !r.Mine(id) {
					continue
				}
				rng := r.Rand("c02sz", id)
				var scheds []c02Sched
				c02Perms(n, func(p []int) {
					for _, m := range masks {
						scheds = append(scheds, c02Sched{N: n, Base: base, Closing: closing, Perm: append([]int{}, p...), Mask: m, Sizes: sizesFor(rng, n)})
					}
				})
				runBlock(id, map[string]any{"n": n, "closing": closing, "base": base, "permutations": "all", "masks": len(masks)}, scheds)
				r.Max("exhaustive_n", int64(n))
			}
		}
	}
	// sampled part: large n
	blocks := r.Pick(24, 400)
	for b := 0; b < blocks; b++ {
		id := fmt.Sprintf("sampled/block=%d", b)
		if !r.Mine(id) {
			continue
		}
		rng := r.Rand("c02sample", b)
		var scheds []c02Sched
		for k := 0; k < 40; k++ {
			n := 8 + rng.IntN(57)
			if k%13 == 0 {
				n = 200
			}
			if k%7 == 3 {
				n = 3 + rng.IntN(8) // small n: these get the very large payloads too
			}
			base := bases[rng.IntN(len(bases))]
			if rng.IntN(4) == 0 {
				base = ^uint64(0) - uint64(n) // highest usable numbers without wrapping
			}
			p := rng.Perm(n)
			// half of the samples: bounded displacement (what multi-connection reordering looks like)
			if rng.IntN(2) == 0 {
				for i := range p {
					p[i] = i
				}
				w := 2 + rng.IntN(6)
				for i := 0; i+1 < n; i++ {
					j := i + rng.IntN(w)
					if j >= n {
						j = n - 1
					}
					p[i], p[j] = p[j], p[i]
				}
			}
			s := c02Sched{N: n, Base: base, Closing: rng.IntN(2) == 0, Perm: p, Mask: rng.Uint64(), Sizes: sizesFor(rng, n)}
			scheds = append(scheds, s)
			r.Distinct("cases", vk.Hash64(s.N, s.Base, s.Closing, s.Perm, s.Mask))
			r.Max("sampled_n", int64(n))
		}
		runBlock(id, map[string]any{"block": b, "schedules": len(scheds)}, scheds)
	}
	// concurrent deliverers: consecutive frames are handed to Write by different goroutines at almost
	// the same instant (what several connection read loops do); the reader must still see sequence order
	for i := 0; i < r.Pick(8, 64); i++ {
		id := fmt.Sprintf("concurrent-deliverers-%d", i)
		if !r.Mine(id) {
			continue
		}
		r.Case(id, nil)
		workers := []int{2, 3, 4, 8}[i%4]
		nframes := r.Pick(60000, 200000)
		kind, detail := c02Concurrent(workers, nframes, i%2 == 0)
		r.Count("evaluations", 1)
		r.Count("concurrently_delivered_frames", int64(nframes))
		r.Distinct("cases", vk.Hash64("conc", i))
		if kind != "" {
			r.Violation(id, "C02:"+kind, fmt.Sprintf("%s; %d goroutines delivering %d frames of one stream", detail, workers, nframes), nil)
		} else {
			r.Pass(id)
		}
	}
	// session level: a stream that was opened while the session had ONE connection keeps being
	// reassembled correctly after more connections have joined (its frames then arrive in any order),
	// and an application that drains the stream with io.Copy into a slow destination sees every
	// byte intact while further frames arrive
	for i := 0; i < r.Pick(24, 400); i++ {
		id := fmt.Sprintf("session-late-connections-%d", i)
		if !r.Mine(id) {
			continue
		}
		methods := []byte{EncryptionMethodPlain, EncryptionMethodAES256GCM, EncryptionMethodChaha20Poly1305, EncryptionMethodAES128GCM}
		cfg := rigCfg{Method: methods[i%4], NumConn: 2 + i%4, Seg: "all", Jitter: []int{0, 2, 3}[i%3], Procs: []int{1, 4, 16}[i%3]}
		r.Case(id, cfg)
		kind, detail := c02Session(t, r, id, cfg, i%2 == 0)
		r.Count("evaluations", 1)
		r.Count("session_level_cases", 1)
		r.Distinct("cases", vk.Hash64("sess", cfg, i))
		if kind != "" {
			r.Violation(id, "C02:"+kind, fmt.Sprintf("%s; cfg %+v", detail, cfg), cfg)
		} else {
			r.Pass(id)
		}
	}
	if basesSkipped {
		r.Count("bases_skipped_field_absent", 1)
	}
	r.Distinct("cases", "exhaustive-part") // the enumerated schedules are counted in distinct_enumerated
	r.Distinct("cases", "sampled-part")
}

// c02Concurrent lets several goroutines deliver the frames of one stream, each frame exactly once,
// taking the next index from a shared counter (so neighbours race), while a reader drains.
func c02Concurrent(workers, nframes int, closing bool) (kind, detail string) {
	sb := NewStreamBuffer()
	var next atomic.Int64
	var wg sync.WaitGroup
	var werr atomic.Value
	closed := make(chan struct{})
	var closeOnce sync.Once
	for w := 0; w < workers; w++ {
		wg.Add(1)
		go func() {
			defer wg.Done()
			payload := make([]byte, 8)
			for {
				i := next.Add(1) - 1
				if i >= int64(nframes) {
					return
				}
				f := &Frame{StreamID: 1, Seq: uint64(i), Payload: payload}
				binary.BigEndian.PutUint64(payload, uint64(i))
				if closing && i == int64(nframes)-1 {
					f.Closing = closingStream
				}
				toBeClosed, err := sb.Write(f)
				if err != nil {
					werr.Store(fmt.Sprintf("Write of frame %d failed: %v", i, err))
					return
				}
				if toBeClosed {
					closeOnce.Do(func() { sb.Close(); close(closed) })
				}
			}
		}()
	}
	data := nframes
	if closing {
		data = nframes - 1
	}
	done := make(chan struct{})
	go func() {
		defer close(done)
		buf := make([]byte, 8)
		for i := 0; i < data; i++ {
			if _, err := io.ReadFull(readerOf(sb), buf); err != nil {
				kind, detail = "early-close", fmt.Sprintf("reader got %v after %d of %d frames although every lower-numbered frame was delivered", err, i, data)
				return
			}
			if got := binary.BigEndian.Uint64(buf); got != uint64(i) {
				kind, detail = "wrong-bytes", fmt.Sprintf("position %d of the stream carries the payload of frame %d: payloads were handed over out of sequence order", i, got)
				return
			}
		}
	}()
	wg.Wait()
	if e := werr.Load(); e != nil {
		sb.Close()
		<-done
		return "write-error", e.(string)
	}
	select {
	case <-done:
	case <-time.After(120 * time.Second):
		sb.Close()
		<-done
		if kind == "" {
			kind, detail = "read-parked", "all frames were delivered but the reader did not get all payloads within two minutes"
		}
	}
	return
}

type sbReader struct{ sb *streamBuffer }

func (r sbReader) Read(p []byte) (int, error) { return r.sb.Read(p) }
func readerOf(sb *streamBuffer) io.Reader     { return sbReader{sb} }

// slowVerifier is a destination for io.Copy that takes its time: it checks the bytes it is given
// against the generator, waits (virtual time, so that more frames arrive meanwhile) and checks the
// very same slice again before returning - a slice handed to Write must not change under it.
type slowVerifier struct {
	tag, total int64
	off        int64
	errs       []string
	slow       bool
}

func (v *slowVerifier) check(p []byte, when string) bool {
	chk := make([]byte, len(p))
	rigFill(uint64(v.tag), v.total, v.off, chk)
	for i := range p {
		if p[i] != chk[i] {
			if len(v.errs) < 3 {
				v.errs = append(v.errs, fmt.Sprintf("byte at stream offset %d is %#x, the writer wrote %#x (%s, chunk of %d bytes handed to the destination)", v.off+int64(i), p[i], chk[i], when, len(p)))
			}
			return false
		}
	}
	return true
}

func (v *slowVerifier) Write(p []byte) (int, error) {
	if v.off+int64(len(p)) > v.total {
		v.errs = append(v.errs, fmt.Sprintf("%d bytes beyond the %d written", v.off+int64(len(p))-v.total, v.total))
		return len(p), nil
	}
	if v.check(p, "on arrival") && v.slow {
		time.Sleep(700 * time.Microsecond)
		v.check(p, "re-read by the still-consuming destination 0.7 ms later")
	}
	v.off += int64(len(p))
	return len(p), nil
}

func c02Session(t *testing.T, r *vk.Reporter, id string, cfg rigCfg, copyDrain bool) (kind, detail string) {
	rng := r.Rand("c02s", id)
	if cfg.Procs > 0 {
		defer runtime.GOMAXPROCS(runtime.GOMAXPROCS(cfg.Procs))
	}
	p, leftover := vk.InBubble(t, func() {
		cfg.Inactivity = 100 * time.Hour
		g := newRigA(cfg, rng)
		g.addConn() // exactly one connection when the stream is born
		st, err := g.cli.OpenStream()
		if err != nil {
			kind, detail = "harness", err.Error()
			return
		}
		var sizes []int
		for k := 0; k < 60+rng.IntN(60); k++ {
			sizes = append(sizes, 1+rng.IntN(4000))
		}
		total := sum(sizes)
		tag := uint64(0xC025E55000000001) &^ downBit
		first := make([]byte, sizes[0])
		rigFill(tag, total, 0, first)
		st.Write(first)
		acc, err := g.srv.Accept()
		if err != nil {
			kind, detail = "harness", err.Error()
			return
		}
		vk.Wait()
		for i := 1; i < g.nconn(); i++ {
			g.addConn()
		}
		v := &slowVerifier{tag: int64(tag), total: total, slow: copyDrain}
		rrng := rand.New(rand.NewPCG(rng.Uint64(), 11)) // the reader's own PRNG
		go func() {
			if copyDrain {
				io.Copy(v, acc) // uses the stream's WriterTo if it has one, Read otherwise
				return
			}
			buf := make([]byte, 5000)
			for {
				n, err := acc.Read(buf[:1+rrng.IntN(len(buf))])
				if n > 0 {
					v.Write(buf[:n])
				}
				if err != nil {
					return
				}
			}
		}()
		off := int64(sizes[0])
		for _, sz := range sizes[1:] {
			b := make([]byte, sz)
			rigFill(tag, total, off, b)
			if _, err := st.Write(b); err != nil {
				kind, detail = "write-failed", err.Error()
				return
			}
			off += int64(sz)
			if rng.IntN(3) == 0 {
				time.Sleep(time.Duration(100+rng.IntN(900)) * time.Microsecond)
			}
		}
		vk.Wait()
		time.Sleep(time.Second)
		vk.Wait()
		switch {
		case len(v.errs) > 0:
			kind, detail = "wrong-bytes", "stream opened under one connection, "+fmt.Sprint(g.nconn()-1)+" more joined later: "+v.errs[0]
		case v.off != total:
			kind, detail = "lost-bytes", fmt.Sprintf("stream opened under one connection, %d more joined later: at quiescence the application has %d of %d bytes; nothing is in flight", g.nconn()-1, v.off, total)
		}
		r.Count("session_bytes_checked", v.off)
		g.closeAll()
		vk.Wait()
	})
	if p != nil && !leftover && kind == "" {
		kind, detail = "panic", fmt.Sprint(p)
	}
	return
}
