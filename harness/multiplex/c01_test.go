package multiplex

// C01 - ordered streams deliver exactly the bytes written, per stream, in both directions.
// Rig A in a bubble: tagged generator bytes are checked incrementally at the reading application;
// router mode chooses the cross-connection arrival order, free-running mode lets goroutines race
// under the race detector. After quiescence every stream must have received exactly what was sent
// and both sessions must still be open.

import (
	"fmt"
	"io"
	"math/rand/v2"
	"runtime"
	"sync"
	"testing"
	"time"

	"github.com/cbeuw/Cloak/internal/verifhook"
	vk "github.com/cbeuw/Cloak/internal/verifkit"
)

const downBit = uint64(1) << 63

type c01Stream struct {
	Tag      uint64 `json:"tag"`
	Up       []int  `json:"up_writes"`
	Down     []int  `json:"down_writes"`
	ReadFrom bool   `json:"readfrom,omitempty"`

	mu      sync.Mutex
	upGot   int64
	downGot int64
	errs    []string
}

func (s *c01Stream) fail(f string, a ...any) {
	s.mu.Lock()
	if len(s.errs) < 4 {
		s.errs = append(s.errs, fmt.Sprintf(f, a...))
	}
	s.mu.Unlock()
}

func sum(a []int) int64 {
	var t int64
	for _, v := range a {
		t += int64(v)
	}
	return t
}

// verifyRead consumes the stream until total bytes were checked or an error occurs.
func verifyRead(rd io.Reader, tag uint64, total int64, start int64, rng *rand.Rand, got *int64, mu *sync.Mutex, fail func(string, ...any)) {
	buf := make([]byte, 1+rng.IntN(40000))
	off := start
	for off < total {
		n, err := rd.Read(buf[:1+rng.IntN(len(buf))])
		if n > 0 {
			if off+int64(n) > total {
				fail("stream %#x: received %d bytes beyond the %d written", tag, off+int64(n)-total, total)
				return
			}
			chk := make([]byte, n)
			rigFill(tag, total, off, chk)
			for i := 0; i < n; i++ {
				if chk[i] != buf[i] {
					fail("stream %#x: byte at offset %d is %#x, the writer wrote %#x (total %d)", tag, off+int64(i), buf[i], chk[i], total)
					return
				}
			}
			off += int64(n)
			mu.Lock()
			*got = off
			mu.Unlock()
		}
		if err != nil {
			fail("stream %#x: Read failed at offset %d of %d: %v", tag, off, total, err)
			return
		}
	}
}

func writeChunks(w io.Writer, tag uint64, total int64, sizes []int, fail func(string, ...any)) {
	var off int64
	for _, sz := range sizes {
		b := make([]byte, sz)
		rigFill(tag, total, off, b)
		n, err := w.Write(b)
		if err != nil || n != sz {
			fail("stream %#x: Write of %d bytes at offset %d returned (%d, %v)", tag, sz, off, n, err)
			return
		}
		off += int64(sz)
	}
}

type c01Case struct {
	Cfg     rigCfg       `json:"cfg"`
	Streams []*c01Stream `json:"-"`
	NStream int          `json:"streams"`
	Sample  *c01Stream   `json:"sample_stream"`
	Forced  bool         `json:"forced_addconn_interleaving,omitempty"`
	// PreGarbage: before any stream is opened, this many records of random bytes reach the server on
	// every connection (used by C11: messages that do not authenticate are dropped without effect)
	PreGarbage int `json:"garbage_records_first,omitempty"`
}

var c01Sizes = []int{1, 2, 13, 1000, rigMax - 1, rigMax, rigMax + 1, 3*rigMax + 7}

func c01Plan(rng *rand.Rand, nstreams int, budget int) []*c01Stream {
	var out []*c01Stream
	per := budget / nstreams
	for i := 0; i < nstreams; i++ {
		s := &c01Stream{Tag: (rng.Uint64() &^ downBit) | 1}
		mk := func(min int) []int {
			var w []int
			tot := 0
			for k := 0; k < 1+rng.IntN(6) || tot < min; k++ {
				sz := c01Sizes[rng.IntN(len(c01Sizes))]
				if rng.IntN(3) == 0 {
					sz = 1 + rng.IntN(5000)
				}
				if tot+sz > per && tot >= min {
					break
				}
				if tot+sz > per {
					sz = 1 + rng.IntN(64)
				}
				w = append(w, sz)
				tot += sz
			}
			return w
		}
		s.Up = mk(16)
		if rng.IntN(8) != 0 {
			s.Down = mk(16)
		}
		s.ReadFrom = rng.IntN(4) == 0
		out = append(out, s)
	}
	return out
}

func c01Run(t *testing.T, r *vk.Reporter, id string, c *c01Case) (kind, detail string) {
	rng := r.Rand("c01run", id)
	if c.Cfg.Procs > 0 {
		defer runtime.GOMAXPROCS(runtime.GOMAXPROCS(c.Cfg.Procs))
	}
	var vmu sync.Mutex
	setV := func(k, d string) {
		vmu.Lock()
		if kind == "" {
			kind, detail = k, d
		}
		vmu.Unlock()
	}
	var arrivalSig string
	var ooo int
	var maxDist uint64
	var released int
	p := inBubble(t, func() {
		g := newRigA(c.Cfg, rng)
		plans := map[uint64]*c01Stream{}
		for _, s := range c.Streams {
			plans[s.Tag] = s
		}
		var fs *c01Stream
		if c.Forced {
			fs = &c01Stream{Tag: 0xF0CED0000001, Up: []int{16}}
			for i := 0; i < 64; i++ {
				fs.Up = append(fs.Up, 1)
			}
			plans[fs.Tag] = fs
		}
		first := 1
		if !c.Cfg.AddLater {
			first = g.nconn()
		}
		for i := 0; i < first; i++ {
			g.addConn()
		}
		if c.PreGarbage > 0 {
			for _, pp := range g.pipes {
				for k := 0; k < c.PreGarbage; k++ {
					body := make([]byte, 1+rng.IntN(600))
					for i := range body {
						body[i] = byte(rng.Uint32())
					}
					pp.A.Write(append([]byte{0x17, 3, 3, byte(len(body) >> 8), byte(len(body))}, body...))
				}
			}
			synctest_Wait()
		}
		var wg sync.WaitGroup
		// server side
		go func() {
			for {
				conn, err := g.srv.Accept()
				if err != nil {
					return
				}
				wg.Add(1)
				go func() {
					defer wg.Done()
					hdr := make([]byte, 16)
					if _, err := io.ReadFull(conn, hdr); err != nil {
						setV("accepted-stream-unreadable", fmt.Sprintf("accepted stream: header read failed: %v", err))
						return
					}
					tag, total := rigHeader(hdr)
					s := plans[tag]
					if s == nil || total != sum(s.Up) {
						setV("corrupt-header", fmt.Sprintf("accepted stream starts with an unknown header (tag %#x total %d)", tag, total))
						return
					}
					s.mu.Lock()
					s.upGot = 16
					s.mu.Unlock()
					lr := rand.New(rand.NewPCG(tag, 5))
					wg.Add(1)
					go func() {
						defer wg.Done()
						writeChunks(conn, tag|downBit, sum(s.Down), s.Down, s.fail)
					}()
					verifyRead(conn, tag, total, 16, lr, &s.upGot, &s.mu, s.fail)
				}()
			}
		}()
		// client side
		for _, s := range c.Streams {
			s := s
			st, err := g.cli.OpenStream()
			if err != nil {
				setV("open-failed", fmt.Sprintf("OpenStream on a healthy session: %v", err))
				break
			}
			wg.Add(2)
			go func() {
				defer wg.Done()
				if s.ReadFrom {
					pr, pw := io.Pipe()
					go func() {
						writeChunks(pw, s.Tag, sum(s.Up), s.Up, s.fail)
					}()
					// ReadFrom returns only when the source fails; it is left parked and torn down with the session
					go st.ReadFrom(pr)
					return
				}
				writeChunks(st, s.Tag, sum(s.Up), s.Up, s.fail)
			}()
			go func() {
				defer wg.Done()
				lr := rand.New(rand.NewPCG(s.Tag, 9))
				verifyRead(st, s.Tag|downBit, sum(s.Down), 0, lr, &s.downGot, &s.mu, s.fail)
			}()
		}
		if c.Cfg.AddLater {
			go func() {
				for i := 1; i < g.nconn(); i++ {
					g.addConn()
					if rng.IntN(2) == 0 {
						runtime.Gosched()
					}
				}
			}()
		}
		if c.Forced {
			// park an addConn between publishing the new count and storing the connection and
			// send from an open stream meanwhile (DESIGN.md C01, forced interleaving)
			synctestSettle(g)
			st, err := g.cli.OpenStream()
			if err != nil {
				setV("open-failed", err.Error())
			} else {
				writeChunks(st, fs.Tag, sum(fs.Up), fs.Up[:1], fs.fail)
				fired := false
				g.beforeCliAdd = func() {
					verifhook.Set("sb.addConn.mid", func() {
						if fired {
							return
						}
						fired = true
						r.Count("forced_addconn_windows", 1)
						for i := 0; i < 64; i++ {
							b := make([]byte, 1)
							rigFill(fs.Tag, sum(fs.Up), int64(16+i), b)
							if _, err := st.Write(b); err != nil {
								setV("send-during-addconn", fmt.Sprintf("a Write issued while a connection was being added failed on a healthy session: %v (write %d of 64)", err, i))
								return
							}
						}
					})
				}
				g.addConn()
				g.beforeCliAdd = nil
				verifhook.Set("sb.addConn.mid", nil)
				if !fired {
					kind, detail = "hook-not-reached", "sb.addConn.mid was not reached"
				}
			}
		}
		g.settle()
		// verdict at quiescence
		if fs != nil {
			c.Streams = append(c.Streams, fs)
		}
		if kind == "" {
			if g.cli.IsClosed() || g.srv.IsClosed() {
				kind, detail = "session-died", fmt.Sprintf("session closed although all connections are healthy and nobody closed it (client closed=%v server closed=%v; terminal msg %q / %q)", g.cli.IsClosed(), g.srv.IsClosed(), g.cli.TerminalMsg(), g.srv.TerminalMsg())
			}
		}
		if kind == "" {
			for _, s := range c.Streams {
				s.mu.Lock()
				if len(s.errs) > 0 {
					kind, detail = "wrong-bytes", s.errs[0]
				} else if s.upGot != sum(s.Up) || s.downGot != sum(s.Down) {
					kind, detail = "lost-bytes", fmt.Sprintf("at quiescence stream %#x has delivered %d of %d bytes upstream and %d of %d downstream; nothing is in flight", s.Tag, s.upGot, sum(s.Up), s.downGot, sum(s.Down))
				}
				r.Count("bytes_checked", s.upGot+s.downGot)
				s.mu.Unlock()
				if kind != "" {
					break
				}
			}
		}
		ooo, maxDist, released = g.ooo, g.maxDist, g.released
		arrivalSig = vk.Hash64(g.arrivals)
		if !c.Cfg.Router {
			arrivalSig = g.net.ArrivalSignature()
		}
		g.closeAll()
		synctest_Wait()
	})
	if p != nil && kind == "" {
		ps := rigPanicStr(p)
		if !isBubbleLeftover(ps) {
			kind, detail = "panic", ps
		}
	}
	r.Distinct("arrival_orders", arrivalSig)
	r.Count("records_routed", int64(released))
	r.Count("out_of_order_arrivals", int64(ooo))
	r.Max("max_reorder_distance", int64(maxDist))
	r.Count("streams", int64(len(c.Streams)))
	return
}

func TestVerif_C01(t *testing.T) {
	r := vk.Open()
	defer r.Close()
	methods := []byte{EncryptionMethodPlain, EncryptionMethodAES256GCM, EncryptionMethodChaha20Poly1305, EncryptionMethodAES128GCM}
	conns := []int{0, 1, 2, 3, 4, 8}
	policies := []string{"random", "random", "starve", "newest-conn", "lifo", "fifo"}
	segs := []string{"all", "random", "small", "one"}
	ncases := r.Pick(160, 4000)
	for i := 0; i < ncases; i++ {
		id := fmt.Sprintf("case-%d", i)
		rng := r.Rand("c01", i)
		c := &c01Case{}
		c.Cfg.Method = methods[i%4]
		c.Cfg.NumConn = conns[(i/4)%len(conns)]
		c.Cfg.Router = rng.IntN(3) != 0
		c.Cfg.Policy = policies[rng.IntN(len(policies))]
		c.Cfg.Seg = segs[rng.IntN(len(segs))]
		c.Cfg.Procs = []int{1, 2, 4, 16}[rng.IntN(4)]
		if !c.Cfg.Router {
			c.Cfg.Jitter = []int{0, 2, 5}[rng.IntN(3)]
			c.Cfg.AddLater = c.Cfg.NumConn > 1 && rng.IntN(2) == 0
			if rng.IntN(3) == 0 {
				c.Cfg.Window = 4096 << rng.IntN(5)
			}
		}
		nstreams := 1
		if c.Cfg.NumConn != 0 {
			switch rng.IntN(5) {
			case 0:
				nstreams = 1
			case 1, 2:
				nstreams = 2 + rng.IntN(7)
			case 3:
				nstreams = 10 + rng.IntN(55)
			default:
				nstreams = r.Pick(16, 100+rng.IntN(300))
			}
		}
		budget := 1 << 20
		if c.Cfg.Seg == "one" {
			budget = 1 << 16
		}
		if c.Cfg.Router {
			budget = 1 << 19
		}
		c.Streams = c01Plan(rng, nstreams, budget)
		c.NStream = nstreams
		c.Sample = c.Streams[0]
		if !r.Mine(id) {
			continue
		}
		r.Case(id, c)
		k, d := c01Run(t, r, id, c)
		r.Distinct("cases", vk.Hash64(c.Cfg, nstreams, c.Sample.Up, c.Sample.Down))
		if i < 3 {
			r.Sample(c)
		}
		if k != "" {
			r.Violation(id, "C01:"+k, fmt.Sprintf("%s; cfg %+v streams %d", d, c.Cfg, nstreams), c)
		} else {
			r.Pass(id)
		}
	}
	// deep reordering: one connection starved while thousands of later frames of the same stream
	// arrive over the others (what a lagging TCP connection does)
	for i := 0; i < r.Pick(3, 24); i++ {
		id := fmt.Sprintf("deep-reorder-%d", i)
		if !r.Mine(id) {
			continue
		}
		rng := r.Rand("c01d", i)
		c := &c01Case{}
		c.Cfg = rigCfg{Method: methods[i%4], NumConn: 2 + i%3, Router: true, Policy: "starve", Seg: "all"}
		nframes := r.Pick(1600, 6000)
		st := &c01Stream{Tag: 0xDEE9000000000001 &^ downBit}
		st.Up = []int{16}
		for k := 0; k < nframes; k++ {
			st.Up = append(st.Up, 1+rng.IntN(48))
		}
		st.Down = []int{16, 100}
		c.Streams = []*c01Stream{st}
		c.NStream = 1
		c.Sample = &c01Stream{Tag: st.Tag, Up: st.Up[:8], Down: st.Down}
		r.Case(id, map[string]any{"cfg": c.Cfg, "frames": nframes})
		k, d := c01Run(t, r, id, c)
		r.Distinct("cases", vk.Hash64("deep", c.Cfg, nframes))
		if k != "" {
			r.Violation(id, "C01:"+k, fmt.Sprintf("%s; deep-reorder case cfg %+v with %d small frames on one stream", d, c.Cfg, nframes), nil)
		} else {
			r.Pass(id)
		}
	}
	// stream churn on a busy session: both sides are inside large writes over connections with bounded
	// windows while each closes the stream the other is writing to; no connection fails and nobody
	// closes the session, so it must keep working (scenario shared with C03)
	for i := 0; i < r.Pick(8, 120); i++ {
		id := fmt.Sprintf("churn-%d", i)
		if !r.Mine(id) {
			continue
		}
		cfg := rigCfg{Method: methods[i%4], NumConn: 1 + (i/2)%4, Seg: "all", Window: []int{4096, 16384, 65536}[i%3], Procs: []int{2, 4, 16}[i%3]}
		r.Case(id, cfg)
		k, d := c03CrossClose(t, r, id, cfg, []int{200000, 1 << 20}[i%2])
		r.Distinct("cases", vk.Hash64("churn", cfg, i))
		r.Count("churn_cases", 1)
		if k == "write-blocked" || k == "session-stalled" || k == "panic" {
			r.Violation(id, "C01:session-stalled", fmt.Sprintf("%s (%s); stream churn on a healthy session, cfg %+v", d, k, cfg), cfg)
		} else {
			r.Pass(id)
		}
	}
	// a slow consumer: one stream's application does not read for a while (tens of MiB pile up) while
	// another stream of the same healthy session keeps exchanging messages; then the slow one reads
	for i := 0; i < r.Pick(1, 8); i++ {
		id := fmt.Sprintf("backlog-%d", i)
		if !r.Mine(id) {
			continue
		}
		cfg := rigCfg{Method: methods[i%4], NumConn: 1 + i%3, Seg: "all"}
		mib := []int{20, 6, 33, 9}[i%4]
		r.Case(id, map[string]any{"cfg": cfg, "unread_MiB": mib})
		k, d := c01Backlog(t, r, id, cfg, mib)
		r.Distinct("cases", vk.Hash64("backlog", cfg, mib))
		r.Count("backlog_cases", 1)
		if k != "" {
			r.Violation(id, "C01:"+k, fmt.Sprintf("%s; cfg %+v, %d MiB unread on the slow stream", d, cfg, mib), cfg)
		} else {
			r.Pass(id)
		}
	}
	// forced interleaving: sends while addConn is between publishing the count and storing the conn
	for i := 0; i < r.Pick(4, 16); i++ {
		id := fmt.Sprintf("forced-addconn-%d", i)
		if !r.Mine(id) {
			continue
		}
		rng := r.Rand("c01f", i)
		c := &c01Case{Forced: true}
		c.Cfg = rigCfg{Method: methods[i%4], NumConn: 1 + i%3, Seg: "all"}
		c.Streams = c01Plan(rng, 2, 1<<16)
		c.NStream = 2
		c.Sample = c.Streams[0]
		r.Case(id, c)
		k, d := c01Run(t, r, id, c)
		r.Distinct("cases", vk.Hash64("forced", c.Cfg))
		if k != "" {
			r.Violation(id, "C01:"+k, d, c)
		} else {
			r.Pass(id)
		}
	}
}

// c01Backlog: stream A carries mib MiB that its receiving application does not read yet; stream B
// must keep working meanwhile (all connections are healthy, nobody closed anything); then A's
// application reads and must get every byte.
func c01Backlog(t *testing.T, r *vk.Reporter, id string, cfg rigCfg, mib int) (kind, detail string) {
	rng := r.Rand("c01b", id)
	p, leftover := vk.InBubble(t, func() {
		cfg.Inactivity = 100 * time.Hour
		g := newRigA(cfg, rng)
		for i := 0; i < g.nconn(); i++ {
			g.addConn()
		}
		a, err := g.cli.OpenStream()
		if err != nil {
			kind, detail = "open-failed", err.Error()
			return
		}
		total := int64(mib) << 20
		tagA := uint64(0xBAC0000000000001) &^ downBit
		var failMu sync.Mutex
		var fails []string
		fail := func(f string, x ...any) {
			failMu.Lock()
			fails = append(fails, fmt.Sprintf(f, x...))
			failMu.Unlock()
		}
		var sizes []int
		for left := total; left > 0; left -= 65536 {
			sizes = append(sizes, int(min(left, 65536)))
		}
		wdone := false
		go func() { writeChunks(a, tagA, total, sizes, fail); wdone = true }()
		sa, err := g.srv.Accept()
		if err != nil {
			kind, detail = "harness", err.Error()
			return
		}
		vk.Wait() // everything that can arrive has arrived; nobody reads A
		if !wdone {
			kind, detail = "writer-blocked", fmt.Sprintf("the writer of the slow stream is blocked after %d MiB although nothing limits the sender", mib)
			return
		}
		// stream B: 64 request/response exchanges while A's backlog sits unread
		b, err := g.cli.OpenStream()
		if err != nil {
			kind, detail = "open-failed", "OpenStream while another stream has an unread backlog: "+err.Error()
			return
		}
		okB := 0
		go func() {
			sb, err := g.srv.Accept()
			if err != nil {
				return
			}
			io.Copy(sb, sb)
		}()
		go func() {
			for k := 0; k < 64; k++ {
				msg := vk.Datagram(77, uint32(k), 200+k)
				if _, err := b.Write(msg); err != nil {
					return
				}
				got := make([]byte, len(msg))
				if _, err := io.ReadFull(b, got); err != nil || string(got) != string(msg) {
					return
				}
				okB++
			}
		}()
		vk.Wait()
		if okB != 64 {
			kind, detail = "session-stalled", fmt.Sprintf("while %d MiB sat unread on one stream, another stream of the same healthy session completed only %d of 64 echo exchanges and is now stuck", mib, okB)
			return
		}
		// now the slow application reads
		var got int64
		var mu sync.Mutex
		go verifyRead(sa, tagA, total, 0, rand.New(rand.NewPCG(5, 5)), &got, &mu, fail)
		vk.Wait()
		mu.Lock()
		gg := got
		mu.Unlock()
		failMu.Lock()
		if len(fails) > 0 {
			kind, detail = "wrong-bytes", fails[0]
		} else if gg != total {
			kind, detail = "lost-bytes", fmt.Sprintf("the slow application finally read %d of %d bytes; nothing is in flight", gg, total)
		}
		failMu.Unlock()
		r.Count("bytes_checked", gg)
		g.closeAll()
		vk.Wait()
	})
	if p != nil && !leftover && kind == "" {
		kind, detail = "panic", fmt.Sprint(p)
	}
	return
}
