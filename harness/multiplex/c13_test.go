package multiplex

// C13 - each stream's frames carry unique, gap-free sequence numbers in write order.
// One real Session whose connections' far ends are hnet taps; every record put on the wire is
// decoded with the reference codec and checked against the API-boundary history of
// Write/ReadFrom/Close calls (one logical clock).

import (
	"fmt"
	"io"
	"math/rand/v2"
	"runtime"
	"sort"
	"sync"
	"sync/atomic"
	"testing"
	"time"

	"github.com/cbeuw/Cloak/internal/common"
	vk "github.com/cbeuw/Cloak/internal/verifkit"
)

type c13Write struct {
	writer   int
	off, n   int64 // range of the writer's generator stream
	call     int64
	ret      int64
	err      error
	readFrom bool
}

type c13Stream struct {
	st                  *Stream
	writers             int
	mu                  sync.Mutex
	writes              []*c13Write
	closeCall, closeRet int64
	closeErr            error
	closed              bool
}

type c13Case struct {
	Method   byte  `json:"method"`
	NumConn  int   `json:"num_conn"`
	Streams  int   `json:"streams"`
	Writers  int   `json:"writers_per_stream"`
	ReadFrom bool  `json:"with_readfrom"`
	Close    bool  `json:"close_at_random_moment"`
	Sizes    []int `json:"write_sizes"`
	Procs    int   `json:"gomaxprocs"`
	FailSend int   `json:"fail_send_at_write,omitempty"` // 0 = none; k>0: the k-th conn write reports an error although the bytes left
	BreakAt  int   `json:"break_conn_at_write,omitempty"`
	// Unordered: a datagram-mode session (one frame per write); numbering rules are the same
	Unordered bool `json:"unordered,omitempty"`
}

func c13Tag(stream, writer int) uint64 { return 0xC13<<40 | uint64(stream)<<16 | uint64(writer) }

func c13Run(t *testing.T, r *vk.Reporter, id string, c *c13Case) (kind, detail string) {
	rng := r.Rand("c13run", id)
	if c.Procs > 0 {
		defer runtime.GOMAXPROCS(runtime.GOMAXPROCS(c.Procs))
	}
	p := inBubble(t, func() {
		var key [32]byte
		for i := range key {
			key[i] = byte(rng.Uint32())
		}
		obf, _ := MakeObfuscator(c.Method, key)
		ref, _ := vk.NewRefCodec(c.Method, key)
		sesh := MakeSession(3, SessionConfig{Obfuscator: obf, MsgOnWireSizeLimit: rigLimit, InactivityTimeout: 100 * time.Hour, Unordered: c.Unordered})
		net := vk.NewNet()
		var pipes []*vk.Pipe
		for i := 0; i < c.NumConn; i++ {
			pp := net.NewPipe(vk.PipeOpts{NoCut: true, Jitter: 3})
			pipes = append(pipes, pp)
			sesh.AddConnection(common.NewTLSConn(pp.A))
		}
		var clock atomic.Int64
		var wcount atomic.Int64
		anyFailed := atomic.Bool{}
		if c.FailSend > 0 || c.BreakAt > 0 {
			net.BeforeWrite = func(cn *vk.Conn) {
				k := int(wcount.Add(1))
				if c.FailSend > 0 && k == c.FailSend {
					cn.Pipe().FailNextWrite(0)
					anyFailed.Store(true)
				}
				if c.BreakAt > 0 && k == c.BreakAt {
					cn.Pipe().Break("reset")
					anyFailed.Store(true)
				}
			}
		}
		streams := make([]*c13Stream, c.Streams)
		var wg sync.WaitGroup
		for si := range streams {
			st, err := sesh.OpenStream()
			if err != nil {
				kind, detail = "harness", err.Error()
				return
			}
			streams[si] = &c13Stream{st: st, writers: c.Writers}
		}
		for si := range streams {
			cs := streams[si]
			st := cs.st
			for w := 0; w < c.Writers; w++ {
				w := w
				si := si
				wrng := rand.New(rand.NewPCG(uint64(si*100+w), rng.Uint64()))
				isRF := c.ReadFrom && w == 0
				wg.Add(1)
				go func() {
					defer wg.Done()
					tag := c13Tag(si, w)
					var off int64
					nw := 3 + wrng.IntN(6)
					if isRF {
						pr, pw := io.Pipe()
						go func() {
							// feed the ReadFrom path: every pipe write becomes (at most) one Read of ReadFrom
							for k := 0; k < nw; k++ {
								sz := c.Sizes[wrng.IntN(len(c.Sizes))]
								if sz > rigMax {
									sz = rigMax // a single source Read never spans more than one frame
								}
								b := make([]byte, sz)
								vk.Fill(tag, off+8, b)
								rec := &c13Write{writer: w, off: off, n: int64(sz), readFrom: true}
								rec.call = clock.Add(1)
								cs.mu.Lock()
								cs.writes = append(cs.writes, rec)
								cs.mu.Unlock()
								_, err := pw.Write(b)
								rec.ret = clock.Add(1)
								rec.err = err
								off += int64(sz)
								if err != nil {
									return
								}
							}
							pw.Close()
						}()
						st.ReadFrom(pr)
						pr.Close()
						return
					}
					for k := 0; k < nw; k++ {
						sz := c.Sizes[wrng.IntN(len(c.Sizes))]
						b := make([]byte, sz)
						vk.Fill(tag, off+8, b)
						rec := &c13Write{writer: w, off: off, n: int64(sz)}
						cs.mu.Lock()
						cs.writes = append(cs.writes, rec)
						cs.mu.Unlock()
						rec.call = clock.Add(1)
						n, err := st.Write(b)
						rec.ret = clock.Add(1)
						rec.err = err
						_ = n
						if err != nil {
							return // frames of a failed write may be partly on the wire; nothing more is written
						}
						off += int64(sz)
						if wrng.IntN(3) == 0 {
							runtime.Gosched()
						}
					}
				}()
			}
			if c.Close {
				wg.Add(1)
				yields := rng.IntN(40)
				go func() {
					defer wg.Done()
					for k := 0; k < yields; k++ {
						runtime.Gosched()
					}
					cs.closeCall = clock.Add(1)
					cs.closeErr = st.Close()
					cs.closeRet = clock.Add(1)
					cs.closed = true
				}()
			}
		}
		synctest_Wait()
		// ---- decode everything the session put on the wire ----
		type wf struct {
			sid     uint32
			seq     uint64
			closing byte
			payload []byte
			gseq    int64
		}
		var frames []wf
		for _, pp := range pipes {
			wire, marks := pp.Wire(0)
			pos := 0
			mi := 0
			for pos+5 <= len(wire) {
				L := int(wire[pos+3])<<8 | int(wire[pos+4])
				if wire[pos] != 23 || pos+5+L > len(wire) {
					kind, detail = "bad-record", fmt.Sprintf("wire of connection %d does not split into application-data records at offset %d", pp.Idx, pos)
					return
				}
				f, err := ref.Decode(wire[pos+5 : pos+5+L])
				if err != nil {
					kind, detail = "undecodable", fmt.Sprintf("record at offset %d of connection %d does not decode under the session key: %v", pos, pp.Idx, err)
					return
				}
				for mi+1 < len(marks) && marks[mi+1].Off <= int64(pos) {
					mi++
				}
				frames = append(frames, wf{f.StreamID, f.Seq, f.Closing, f.Payload, marks[mi].Seq})
				pos += 5 + L
			}
			r.Count("records_decoded", int64(len(marks)))
		}
		// (1) uniqueness of (stream id, seq) == AEAD nonce uniqueness under this key
		seen := map[[2]uint64]int{}
		for i, f := range frames {
			k := [2]uint64{uint64(f.sid), f.seq}
			if j, dup := seen[k]; dup {
				kind, detail = "seq-reused", fmt.Sprintf("two messages on the wire carry (stream %d, seq %d): payload lengths %d and %d, closing flags %d and %d - the AEAD nonce derived from them repeats", f.sid, f.seq, len(frames[j].payload), len(f.payload), frames[j].closing, f.closing)
				return
			}
			seen[k] = i
		}
		for si, cs := range streams {
			var fs []wf
			for _, f := range frames {
				if f.sid == cs.st.id {
					fs = append(fs, f)
				}
			}
			sort.Slice(fs, func(a, b int) bool { return fs[a].seq < fs[b].seq })
			// (2) gap-free when no send failed
			if !anyFailed.Load() {
				for i, f := range fs {
					if f.seq != uint64(i) {
						kind, detail = "seq-gap", fmt.Sprintf("stream %d: frame %d in sequence order carries seq %d (no send failed)", cs.st.id, i, f.seq)
						return
					}
				}
			}
			// (3) each data frame is a contiguous piece of one write; per-writer bytes in order
			next := make([]int64, cs.writers)
			// map: writer -> sorted write ranges
			ranges := make([][]*c13Write, cs.writers)
			cs.mu.Lock()
			for _, w := range cs.writes {
				ranges[w.writer] = append(ranges[w.writer], w)
			}
			cs.mu.Unlock()
			frameOfWrite := map[*c13Write][2]uint64{} // min,max seq
			var closingSeq uint64
			closings := 0
			// attribute every frame to (writer, write) by content; tiny frames can match several
			// writers, so the attribution is a backtracking search over the whole stream
			assign := make([]int, len(fs))
			owners := make([]*c13Write, len(fs))
			failAt := -1
			requireComplete := true
			complete := func() (bool, string) {
				cs.mu.Lock()
				defer cs.mu.Unlock()
				for _, w := range cs.writes {
					if w.err == nil && w.ret != 0 && !w.readFrom && next[w.writer] < w.off+w.n {
						return false, fmt.Sprintf("stream %d: a Write of %d bytes returned nil but only %d of the writer's %d bytes reached the wire", cs.st.id, w.n, next[w.writer], w.off+w.n)
					}
				}
				return true, ""
			}
			var search func(i int) bool
			search = func(i int) bool {
				if i == len(fs) {
					if requireComplete {
						ok, _ := complete()
						return ok
					}
					return true
				}
				f := fs[i]
				for w := 0; w < cs.writers; w++ {
					chk := make([]byte, len(f.payload))
					vk.Fill(c13Tag(si, w), next[w]+8, chk)
					if string(chk) != string(f.payload) {
						continue
					}
					var owner *c13Write
					for _, wr := range ranges[w] {
						if next[w] >= wr.off && next[w]+int64(len(f.payload)) <= wr.off+wr.n {
							owner = wr
						}
					}
					if owner == nil {
						continue
					}
					next[w] += int64(len(f.payload))
					assign[i], owners[i] = w, owner
					if search(i + 1) {
						return true
					}
					next[w] -= int64(len(f.payload))
				}
				if f.closing != 0 {
					assign[i], owners[i] = -1, nil
					if search(i + 1) {
						return true
					}
				}
				if i > failAt {
					failAt = i
				}
				return false
			}
			if !search(0) {
				requireComplete = false
				failAt = -1
				for w := range next {
					next[w] = 0
				}
				if search(0) {
					_, why := complete()
					kind, detail = "write-lost", why
					return
				}
				f := fs[failAt]
				kind, detail = "payload-not-in-order", fmt.Sprintf("stream %d: frame seq %d (%d bytes, closing flag %d) cannot be attributed: it is not the next contiguous piece, inside a single write, of any writer's bytes (duplicated, lost, reordered, mixed or split bytes)", cs.st.id, f.seq, len(f.payload), f.closing)
				return
			}
			for i, f := range fs {
				if f.closing != 0 {
					if closings == 0 {
						closingSeq = f.seq
					}
					closings++
				}
				if owners[i] == nil {
					continue
				}
				mm, ok := frameOfWrite[owners[i]]
				if !ok {
					mm = [2]uint64{f.seq, f.seq}
				}
				if f.seq < mm[0] {
					mm[0] = f.seq
				}
				if f.seq > mm[1] {
					mm[1] = f.seq
				}
				frameOfWrite[owners[i]] = mm
			}
			// every successfully returned write is completely on the wire
			cs.mu.Lock()
			// (4) real-time order: A returned before B was called => A's frames precede B's
			for _, a := range cs.writes {
				fa, oka := frameOfWrite[a]
				if !oka || a.ret == 0 || a.readFrom {
					continue
				}
				for _, b := range cs.writes {
					fb, okb := frameOfWrite[b]
					if !okb || a == b || b.readFrom {
						continue
					}
					if a.ret < b.call && fa[1] > fb[0] {
						kind, detail = "order-violates-real-time", fmt.Sprintf("stream %d: a write that returned (t=%d) before another began (t=%d) has a frame numbered %d after the other's frame %d", cs.st.id, a.ret, b.call, fa[1], fb[0])
					}
				}
				// (5) closing frame after every write completed before Close was called
				if cs.closed && closings > 0 && a.ret < cs.closeCall && fa[1] > closingSeq {
					kind, detail = "close-before-completed-write", fmt.Sprintf("stream %d: closing frame seq %d is numbered below frame %d of a write that had returned before Close was called", cs.st.id, closingSeq, fa[1])
				}
			}
			// (4b) a Write is one unit: the frames of one Write call are not interleaved with frames of
			// another Write call on the same stream (only a concurrent ReadFrom, which sends frame by
			// frame, and the closing notice may fall in between)
			for i, f := range fs {
				o := owners[i]
				if o == nil || o.readFrom {
					continue
				}
				mm := frameOfWrite[o]
				_ = f
				for j := range fs {
					if fs[j].seq <= mm[0] || fs[j].seq >= mm[1] {
						continue
					}
					if oj := owners[j]; oj != nil && oj != o && !oj.readFrom {
						kind, detail = "write-interleaved", fmt.Sprintf("stream %d: frame seq %d of another Write call lies between the frames (seq %d..%d) of one multi-frame Write: the bytes on the stream are not the writes in any order", cs.st.id, fs[j].seq, mm[0], mm[1])
					}
				}
				if kind != "" {
					break
				}
			}
			cs.mu.Unlock()
			if cs.closed && cs.closeErr == nil && closings < 1 {
				kind, detail = "no-closing-frame", fmt.Sprintf("stream %d: Close returned nil but no closing frame is on the wire", cs.st.id)
			}
			if kind != "" {
				return
			}
			r.Count("frames_checked", int64(len(fs)))
		}
		r.Distinct("interleavings", net.ArrivalSignature())
		sesh.Close()
		for _, pp := range pipes {
			pp.A.Close()
			pp.B.Close()
		}
		synctest_Wait()
	})
	if p != nil && kind == "" && !isBubbleLeftover(rigPanicStr(p)) {
		kind, detail = "panic", rigPanicStr(p)
	}
	return
}

func TestVerif_C13(t *testing.T) {
	r := vk.Open()
	defer r.Close()
	for i := 0; i < 8; i++ {
		id := fmt.Sprintf("late-duplicate-%d", i)
		if !r.Mine(id) {
			continue
		}
		r.Case(id, nil)
		k, d := c13LateDuplicate(t, r, id, []byte{EncryptionMethodPlain, EncryptionMethodAES256GCM, EncryptionMethodChaha20Poly1305, EncryptionMethodAES128GCM}[i%4], i >= 4)
		r.Distinct("cases", vk.Hash64("late", i))
		if k != "" {
			r.Violation(id, "C13:"+k, d, nil)
		} else {
			r.Pass(id)
		}
	}
	methods := []byte{EncryptionMethodPlain, EncryptionMethodAES256GCM, EncryptionMethodChaha20Poly1305, EncryptionMethodAES128GCM}
	sizeSets := [][]int{{8, 9, 64}, {8, rigMax, rigMax + 1}, {4 * rigMax, 100}, {1000, rigMax - 1, 2*rigMax + 3}, {16, 17}}
	n := r.Pick(240, 5000)
	for i := 0; i < n; i++ {
		id := fmt.Sprintf("hist-%d", i)
		rng := r.Rand("c13", i)
		c := &c13Case{Method: methods[i%4], NumConn: 1 + rng.IntN(4), Streams: 1 + rng.IntN(3), Writers: 1 + rng.IntN(8), ReadFrom: rng.IntN(2) == 0, Close: rng.IntN(3) != 0,
			Sizes: sizeSets[rng.IntN(len(sizeSets))], Procs: []int{1, 2, 4, 16}[rng.IntN(4)]}
		if i%16 == 15 {
			c.Streams = 16
			c.Writers = 1 + rng.IntN(2)
		}
		if c.Writers == 1 && rng.IntN(2) == 0 {
			c.Sizes = []int{1, 2, 3, rigMax + 1}
		}
		if i%6 == 5 {
			c.Unordered = true
			c.Sizes = [][]int{{8, 9, 64}, {1000, rigMax - 1}, {16, 17}, {rigMax, 100}}[(i/6)%4]
		}
		switch i % 5 {
		case 3:
			c.FailSend = 1 + rng.IntN(12)
		case 4:
			c.BreakAt = 1 + rng.IntN(12)
		}
		if !r.Mine(id) {
			continue
		}
		r.Case(id, c)
		k, d := c13Run(t, r, id, c)
		r.Distinct("cases", vk.Hash64(*c))
		if i < 4 {
			r.Sample(c)
		}
		if k != "" {
			r.Violation(id, "C13:"+k, fmt.Sprintf("%s; case %+v", d, *c), c)
		} else {
			r.Pass(id)
		}
	}
}

// c13LateDuplicate: a session pair; stream X is opened, used and closed while another stream keeps
// the session alive; much later (beyond the inactivity timeout) a duplicate of one of X's frames
// reaches the acceptor again (a replayed or long-delayed record). Whatever the acceptor side then
// does, it must not put a second message with an already used (stream id, seq) pair on the wire.
func c13LateDuplicate(t *testing.T, r *vk.Reporter, id string, method byte, unordered bool) (kind, detail string) {
	rng := r.Rand("c13late", id)
	p, leftover := vk.InBubble(t, func() {
		cfg := rigCfg{Method: method, NumConn: 1, Unordered: unordered, Seg: "all"}
		g := newRigA(cfg, rng) // default inactivity timeout (30 s)
		pp := g.addConn()
		// server side: echo every accepted stream
		go func() {
			for {
				c, err := g.srv.Accept()
				if err != nil {
					return
				}
				go func() {
					buf := make([]byte, 20000)
					for {
						n, err := c.Read(buf)
						if err != nil {
							return
						}
						if _, err := c.Write(buf[:n]); err != nil {
							return
						}
					}
				}()
			}
		}()
		keep, _ := g.cli.OpenStream()
		keep.Write([]byte("keep the session alive"))
		go io.Copy(io.Discard, keep)
		x, _ := g.cli.OpenStream()
		x.Write(vk.Datagram(1, 1, 300))
		rb := make([]byte, 400)
		x.SetReadDeadline(time.Now().Add(time.Minute))
		x.Read(rb)
		vk.Wait()
		// remember X's first record as it went over the wire
		wire, marks := pp.Wire(0)
		var xrec []byte
		for _, m := range marks {
			rec := wire[m.Off : m.Off+int64(m.N)]
			if len(rec) > 5 {
				if f, err := g.ref.Decode(rec[5:]); err == nil && f.StreamID == x.id && f.Closing == 0 {
					xrec = append([]byte{}, rec...)
					break
				}
			}
		}
		x.Close()
		vk.Wait()
		time.Sleep(5 * time.Minute) // far beyond the inactivity timeout; the session lives on through `keep`
		vk.Wait()
		if xrec == nil || g.srv.IsClosed() {
			kind, detail = "harness", "could not set the scenario up"
			return
		}
		pp.A.Write(xrec) // the duplicate arrives
		vk.Wait()
		time.Sleep(time.Minute)
		vk.Wait()
		// every (stream id, seq) pair the acceptor side ever sent must be unique
		down, dmarks := pp.Wire(1)
		seen := map[[2]uint64]bool{}
		for _, m := range dmarks {
			rec := down[m.Off : m.Off+int64(m.N)]
			f, err := g.ref.Decode(rec[5:])
			if err != nil {
				continue
			}
			k := [2]uint64{uint64(f.StreamID), f.Seq}
			if seen[k] {
				kind, detail = "seq-reused", fmt.Sprintf("after a duplicate of an old frame of the long-closed stream %d arrived, the endpoint sent a second message numbered (stream %d, seq %d) under the same session key: the cipher nonce repeats", x.id, f.StreamID, f.Seq)
				return
			}
			seen[k] = true
			r.Count("frames_checked", 1)
		}
		g.closeAll()
		vk.Wait()
	})
	if p != nil && !leftover && kind == "" {
		kind, detail = "panic", fmt.Sprint(p)
	}
	return
}
