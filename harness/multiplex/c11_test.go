package multiplex

// C11 - forged, foreign or modified frames are rejected; garbage never breaks a session.
// In-package driver on Session.recvDataFromRemote: every injection is judged by its return value,
// by a snapshot of the session's observable state before/after, and by the delivery of a valid
// frame afterwards.

import (
	"bytes"
	"crypto/rand"
	"fmt"
	"sort"
	"testing"
	"time"

	vk "github.com/cbeuw/Cloak/internal/verifkit"
)

type c11Snap struct {
	closed  bool
	count   uint32
	table   string
	backlog int
}

func c11Snapshot(s *Session) c11Snap {
	s.streamsM.Lock()
	ids := make([]string, 0, len(s.streams))
	for id, st := range s.streams {
		ids = append(ids, fmt.Sprintf("%d:%v", id, st != nil))
	}
	s.streamsM.Unlock()
	sort.Strings(ids)
	return c11Snap{s.IsClosed(), s.streamCount(), fmt.Sprint(ids), len(s.acceptCh)}
}

func c11Session(method byte, key [32]byte, unordered bool) (*Session, Obfuscator) {
	obf, err := MakeObfuscator(method, key)
	if err != nil {
		panic(err)
	}
	return MakeSession(1, SessionConfig{Obfuscator: obf, Unordered: unordered, InactivityTimeout: 10000 * time.Hour, MsgOnWireSizeLimit: c04Limit}), obf
}

// region names the part of the message a byte offset belongs to.
func c11Region(off, total, payloadLen, tagLen int) string {
	switch {
	case off < 4:
		return "streamid"
	case off < 12:
		return "seq"
	case off == 12:
		return "header-byte-12"
	case off == 13:
		return "header-byte-13"
	case off < 14+payloadLen:
		return "payload"
	case off < total-tagLen:
		return "padding"
	default:
		return "tag"
	}
}

type c11Env struct {
	r      *vk.Reporter
	method byte
	key    [32]byte
	sesh   *Session
	obf    Obfuscator
	ref    *vk.RefCodec
	stream *Stream // an accepted, open stream (id 1) that has consumed seq 0
	nextSq uint64
	valid  int // counter for fresh payloads
}

func (e *c11Env) fresh() {
	e.sesh, e.obf = c11Session(e.method, e.key, false)
	e.ref, _ = vk.NewRefCodec(e.method, e.key)
	e.stream = nil
	e.nextSq = 0
}

// deliverValid sends the next in-order frame of stream 1 and checks that exactly its payload comes out.
func (e *c11Env) deliverValid() string {
	e.valid++
	payload := vk.Datagram(11, uint32(e.valid), 20+e.valid%50)
	msg, err := e.ref.Encode(vk.RefFrame{StreamID: 1, Seq: e.nextSq, Payload: payload}, nil, [8]byte{1, 2, 3, 4, 5, 6, 7, 8})
	if err != nil {
		return "harness: " + err.Error()
	}
	if err := e.sesh.recvDataFromRemote(msg); err != nil {
		return fmt.Sprintf("valid frame (stream 1 seq %d) refused after the injections: %v", e.nextSq, err)
	}
	e.nextSq++
	if e.stream == nil {
		select {
		case st := <-e.sesh.acceptCh:
			if st == nil {
				return "accept queue closed"
			}
			e.stream = st
		default:
			return "valid first frame did not open a stream"
		}
	}
	e.stream.SetReadDeadline(time.Now().Add(20 * time.Second))
	buf := make([]byte, len(payload)+64)
	n, err := e.stream.Read(buf)
	if err != nil {
		return fmt.Sprintf("valid frame not delivered: Read -> %v", err)
	}
	if !bytes.Equal(buf[:n], payload) {
		return fmt.Sprintf("stream delivered %d bytes that are not the valid frame's payload (%d bytes): foreign data reached the application", n, len(payload))
	}
	return ""
}

// inject presents a modified message; returns a violation key suffix and detail when it was processed.
func (e *c11Env) inject(mod []byte, what string, region string) (string, string) {
	before := c11Snapshot(e.sesh)
	err := e.sesh.recvDataFromRemote(append([]byte{}, mod...))
	after := c11Snapshot(e.sesh)
	e.r.Count("evaluations", 1)
	if err == nil || before != after {
		detail := fmt.Sprintf("%s: recvDataFromRemote returned %v; state before %+v after %+v", what, err, before, after)
		e.fresh()
		if d := e.deliverValid(); d != "" {
			return "post", d
		}
		return region, detail
	}
	return "", ""
}

func c11Garbage(r *vk.Reporter, id string, method byte, unordered bool, n int) (string, string) {
	rng := r.Rand("c11garbage", id)
	var key [32]byte
	rand.Read(key[:])
	var sesh *Session
	var accepted chan *Stream
	newSesh := func() {
		sesh, _ = c11Session(method, key, unordered)
		s := sesh
		acc := make(chan *Stream, 4096)
		accepted = acc
		go func() { // draining acceptor, as serveSession does
			for {
				c, err := s.Accept()
				if err != nil {
					return
				}
				select {
				case acc <- c.(*Stream):
				default:
				}
			}
		}()
	}
	newSesh()
	for i := 0; i < n; i++ {
		if i%500 == 499 {
			sesh.Close()
			newSesh()
		}
		var L int
		switch {
		case i < 65*3:
			L = i / 3
		case rng.IntN(3) == 0:
			L = rng.IntN(20481)
		default:
			L = rng.IntN(200)
		}
		b := make([]byte, L)
		rand.Read(b)
		r.Count("garbage_messages", 1)
		r.Count("evaluations", 1)
		before := c11Snapshot(sesh)
		err := sesh.recvDataFromRemote(b)
		if method != EncryptionMethodPlain {
			after := c11Snapshot(sesh)
			if err == nil || before != after {
				return "garbage-processed", fmt.Sprintf("random %d-byte string processed under an AEAD method (err=%v, state %+v -> %+v)", L, err, before, after)
			}
		}
	}
	if method != EncryptionMethodPlain && !unordered {
		// later valid frames are still processed
		ref, _ := vk.NewRefCodec(method, key)
		payload := vk.Datagram(12, 1, 64)
		msg, _ := ref.Encode(vk.RefFrame{StreamID: 77, Seq: 0, Payload: payload}, nil, [8]byte{})
		if err := sesh.recvDataFromRemote(msg); err != nil {
			return "post-garbage", fmt.Sprintf("valid frame refused after garbage: %v", err)
		}
		select {
		case st := <-accepted:
			st.SetReadDeadline(time.Now().Add(20 * time.Second))
			buf := make([]byte, 128)
			n, err := st.Read(buf)
			if err != nil || !bytes.Equal(buf[:n], payload) {
				return "post-garbage", fmt.Sprintf("valid frame after garbage delivered wrongly (n=%d err=%v)", n, err)
			}
		case <-time.After(20 * time.Second):
			return "post-garbage", "valid frame after garbage did not open a stream (or garbage opened streams under an AEAD method)"
		}
	}
	sesh.Close()
	return "", ""
}

func TestVerif_C11(t *testing.T) {
	r := vk.Open()
	defer r.Close()
	// garbage first, then ordinary traffic on several connections at once: messages that do not
	// authenticate are dropped WITHOUT EFFECT, so the valid frames that follow (arriving concurrently
	// on 2..4 connections) must be delivered exactly as written (C01's oracle)
	for i := 0; i < r.Pick(12, 200); i++ {
		id := fmt.Sprintf("garbage-then-traffic-%d", i)
		if !r.Mine(id) {
			continue
		}
		rng := r.Rand("c11g", i)
		c := &c01Case{PreGarbage: 1 + i%5}
		c.Cfg = rigCfg{Method: []byte{EncryptionMethodAES256GCM, EncryptionMethodChaha20Poly1305, EncryptionMethodAES128GCM}[i%3], NumConn: 2 + i%3, Seg: "all", Procs: []int{4, 16, 2}[i%3], Jitter: []int{0, 2}[i%2]}
		c.Streams = c01Plan(rng, 4+rng.IntN(12), 1<<19)
		c.NStream = len(c.Streams)
		c.Sample = c.Streams[0]
		r.Case(id, c)
		k, d := c01Run(t, r, id, c)
		r.Count("evaluations", 1)
		r.Count("garbage_then_traffic_cases", 1)
		r.Distinct("cases", vk.Hash64("gtt", c.Cfg, i))
		if k != "" {
			r.Violation(id, "C11:garbage-affects-later-frames", fmt.Sprintf("after %d undecodable records per connection: %s (%s); cfg %+v, %d streams", c.PreGarbage, d, k, c.Cfg, c.NStream), c)
		} else {
			r.Pass(id)
		}
	}
	aead := []struct {
		name string
		id   byte
	}{{"aes-256-gcm", EncryptionMethodAES256GCM}, {"chacha20-poly1305", EncryptionMethodChaha20Poly1305}, {"aes-128-gcm", EncryptionMethodAES128GCM}}
	sizes := []int{1, 2, 17, 100, 1000, c04Max}
	seqs := []uint64{0, 3, 7}

	report := func(id string, viols map[string]string) {
		if len(viols) == 0 {
			r.Pass(id)
			return
		}
		keys := make([]string, 0, len(viols))
		for k := range viols {
			keys = append(keys, k)
		}
		sort.Strings(keys)
		for _, k := range keys {
			r.Violation(id, "C11:"+k, viols[k], nil)
		}
	}

	type mcase struct {
		size    int
		seq     uint64
		closing byte
	}
	var mcases []mcase
	for _, size := range sizes {
		for _, seq := range seqs {
			mcases = append(mcases, mcase{size, seq, closingNothing})
		}
	}
	// genuine closing notices (stream and session) are messages too: every part of them is covered
	mcases = append(mcases, mcase{1, 0, closingStream}, mcase{77, 3, closingStream}, mcase{256, 7, closingStream}, mcase{40, 0, closingSession}, mcase{200, 0, closingSession})
	for _, m := range aead {
		for _, mc := range mcases {
			{
				size, seq, closingKind := mc.size, mc.seq, mc.closing
				id := fmt.Sprintf("modify/%s/payload=%d/seq=%d", m.name, size, seq)
				if closingKind != closingNothing {
					id = fmt.Sprintf("modify/%s/closing=%d/payload=%d/seq=%d", m.name, closingKind, size, seq)
				}
				if !r.Mine(id) {
					continue
				}
				r.Case(id, map[string]any{"method": m.name, "payload": size, "seq": seq, "closing": closingKind})
				rng := r.Rand("c11", id)
				e := &c11Env{r: r, method: m.id}
				rand.Read(e.key[:])
				e.fresh()
				viols := map[string]string{}
				add := func(k, d string) {
					if k != "" {
						if _, ok := viols[k]; !ok {
							viols[k] = d
						}
						r.Count("accepted_modifications", 1)
					}
				}
				// bring stream 1 to the point where `seq` is the next expected number
				for e.nextSq < seq {
					if d := e.deliverValid(); d != "" {
						add("setup", d)
						break
					}
				}
				// the genuine message under test: produced by Cloak's own encoder (padding for seq<5)
				payload := make([]byte, size)
				rand.Read(payload)
				buf := make([]byte, c04Limit)
				gsid := uint32(1)
				if closingKind == closingSession {
					gsid, seq = 0xffffffff, 0
				}
				n, err := e.obf.obfuscate(&Frame{StreamID: gsid, Seq: seq, Closing: closingKind, Payload: payload}, buf, 0)
				if err != nil {
					r.Violation(id, "C11:setup", err.Error(), nil)
					continue
				}
				orig := append([]byte{}, buf[:n]...)
				tagLen := e.ref.TagLen()
				total := len(orig)
				// single-bit flips
				var positions []int
				if size <= 1000 || r.Thorough() {
					for p := 0; p < total; p++ {
						positions = append(positions, p)
					}
				} else {
					for p := 0; p < 14+32; p++ {
						positions = append(positions, p)
					}
					for p := total - 64; p < total; p++ {
						positions = append(positions, p)
					}
					for k := 0; k < 2000; k++ {
						positions = append(positions, 46+rng.IntN(total-110))
					}
				}
				for _, p := range positions {
					region := c11Region(p, total, size, tagLen)
					for bit := 0; bit < 8; bit++ {
						mod := append([]byte{}, orig...)
						mod[p] ^= 1 << uint(bit)
						k, d := e.inject(mod, fmt.Sprintf("bit %d of byte %d (%s) flipped in a %d-byte message (payload %d, seq %d, %s)", bit, p, region, total, size, seq, m.name), "aead-"+region)
						add(k, d)
						r.Count("bitflips", 1)
					}
				}
				// truncations and extensions
				for cut := 1; cut <= total && cut <= 80; cut++ {
					k, d := e.inject(orig[:total-cut], fmt.Sprintf("message truncated by %d bytes", cut), "truncated")
					add(k, d)
				}
				if total > 200 {
					for k2 := 0; k2 < 60; k2++ {
						k, d := e.inject(orig[:rng.IntN(total)], "message truncated at a random length", "truncated")
						add(k, d)
					}
				}
				for ext := 1; ext <= 32; ext++ {
					extra := make([]byte, ext)
					rand.Read(extra)
					k, d := e.inject(append(append([]byte{}, orig...), extra...), fmt.Sprintf("message extended by %d bytes", ext), "extended")
					add(k, d)
				}
				// random multi-byte corruptions
				nc := r.Pick(300, 3000)
				for c := 0; c < nc; c++ {
					mod := append([]byte{}, orig...)
					k := 1 + rng.IntN(6)
					regions := map[string]bool{}
					for j := 0; j < k; j++ {
						p := rng.IntN(total)
						for mod[p] != orig[p] { // a position that was not changed yet (a second change could restore the byte)
							p = rng.IntN(total)
						}
						for mod[p] == orig[p] {
							mod[p] = byte(rng.Uint32())
						}
						regions[c11Region(p, total, size, tagLen)] = true
					}
					reg := "multi"
					if len(regions) == 1 {
						for k := range regions {
							reg = k
						}
					} else if len(regions) == 2 && regions["header-byte-12"] && regions["header-byte-13"] {
						reg = "header-byte-12" // confined to the two unauthenticated header bytes
					}
					kk, d := e.inject(mod, fmt.Sprintf("%d random byte(s) changed (%v)", k, regions), "aead-"+reg)
					add(kk, d)
				}
				// other keys / other methods
				for c := 0; c < 12; c++ {
					var k2 [32]byte
					rand.Read(k2[:])
					om := aead[c%3].id
					if c >= 6 {
						k2 = e.key // same key, other method
						if om == m.id || (om == EncryptionMethodAES128GCM && false) {
							continue
						}
					}
					oc, _ := vk.NewRefCodec(om, k2)
					msg, _ := oc.Encode(vk.RefFrame{StreamID: 1, Seq: e.nextSq, Payload: payload}, nil, [8]byte{})
					kk, d := e.inject(msg, fmt.Sprintf("message sealed under key/method (%v, method %d) foreign to this session", c < 6, om), "foreign-key-or-method")
					add(kk, d)
				}
				// and finally the genuine message itself must still be accepted and delivered
				if closingKind == closingNothing {
					e.fresh()
					for e.nextSq < seq {
						if d := e.deliverValid(); d != "" {
							add("setup", d)
							break
						}
					}
					if err := e.sesh.recvDataFromRemote(append([]byte{}, orig...)); err != nil {
						add("genuine-rejected", fmt.Sprintf("the unmodified message is rejected after the injections: %v", err))
					} else {
						if e.stream == nil {
							select {
							case st := <-e.sesh.acceptCh:
								e.stream = st
							default:
							}
						}
						if e.stream == nil {
							add("genuine-rejected", "the unmodified message did not open its stream")
						} else {
							e.stream.SetReadDeadline(time.Now().Add(20 * time.Second))
							got := make([]byte, 0, size)
							tmp := make([]byte, size+10)
							for len(got) < size {
								nn, err := e.stream.Read(tmp)
								if err != nil {
									add("genuine-rejected", fmt.Sprintf("payload of the unmodified message not delivered: %v", err))
									break
								}
								got = append(got, tmp[:nn]...)
							}
							if len(got) >= size && !bytes.Equal(got, payload) {
								add("foreign-data", "stream content differs from the genuine payload after the injections")
							}
						}
					}
				}
				r.Count("distinct_enumerated", 1)
				r.Sample(map[string]any{"method": m.name, "payload": size, "seq": seq, "message_len": total, "bit_positions": len(positions)})
				report(id, viols)
			}
		}
	}

	// arbitrary byte strings, all four methods, ordered and unordered sessions
	for _, m := range c04Methods {
		for _, un := range []bool{false, true} {
			for b := 0; b < r.Pick(2, 12); b++ {
				id := fmt.Sprintf("garbage/%s/unordered=%v/%d", m.name, un, b)
				if !r.Mine(id) {
					continue
				}
				r.Case(id, map[string]any{"method": m.name, "unordered": un})
				k, d := c11Garbage(r, id, m.id, un, r.Pick(1500, 6000))
				r.Count("distinct_enumerated", 1)
				if k != "" {
					r.Violation(id, "C11:"+k, d, nil)
				} else {
					r.Pass(id)
				}
			}
		}
	}
	r.Distinct("cases", "modify")
	r.Distinct("cases", "garbage")
}
