package multiplex

// C04 - frame encoding round-trips, respects the size limit and keeps the wire format.
// Differential oracle: Cloak's obfuscate/deobfuscate against the independent refcodec (verifkit)
// and frozen golden vectors, for every payload length 1..max and all four methods.

import (
	"bytes"
	"crypto/rand"
	"encoding/hex"
	"encoding/json"
	"fmt"
	"io"
	mrand "math/rand/v2"
	"os"
	"path/filepath"
	"testing"
	"time"

	"github.com/cbeuw/Cloak/internal/common"

	vk "github.com/cbeuw/Cloak/internal/verifkit"
)

const c04Limit = 16401 // on-wire limit used by ck-client and ck-server
const c04Max = c04Limit - 14 - 255

var c04Methods = []struct {
	name string
	id   byte
}{{"plain", EncryptionMethodPlain}, {"aes-256-gcm", EncryptionMethodAES256GCM}, {"chacha20-poly1305", EncryptionMethodChaha20Poly1305}, {"aes-128-gcm", EncryptionMethodAES128GCM}}

type c04Golden struct {
	Method   byte   `json:"method"`
	Key      string `json:"key"`
	StreamID uint32 `json:"stream_id"`
	Seq      uint64 `json:"seq"`
	Closing  byte   `json:"closing"`
	Payload  string `json:"payload"`
	Message  string `json:"message"`
}

func c04SeqClass(rng *mrand.Rand, class int) uint64 {
	switch class {
	case 0, 1, 2, 3, 4:
		return uint64(class)
	case 5:
		return 5
	case 6:
		return 1<<32 - 1
	case 7:
		return 1 << 32
	default:
		return rng.Uint64() | 8
	}
}

func frameEq(a *Frame, sid uint32, seq uint64, closing byte, payload []byte) string {
	if a.StreamID != sid {
		return fmt.Sprintf("stream id %d != %d", a.StreamID, sid)
	}
	if a.Seq != seq {
		return fmt.Sprintf("seq %d != %d", a.Seq, seq)
	}
	if a.Closing != closing {
		return fmt.Sprintf("closing %d != %d", a.Closing, closing)
	}
	if !bytes.Equal(a.Payload, payload) {
		return fmt.Sprintf("payload differs (len %d vs %d)", len(a.Payload), len(payload))
	}
	return ""
}

// c04One checks one (method, key, frame) against all oracles. Returns kind, detail.
func c04One(r *vk.Reporter, o *Obfuscator, ref *vk.RefCodec, rng *mrand.Rand, sid uint32, seq uint64, closing byte, payload []byte, inPlace bool) (string, string) {
	buf := make([]byte, c04Limit)
	rand.Read(buf) // stale content of a pooled buffer
	f := &Frame{StreamID: sid, Seq: seq, Closing: closing}
	off := 0
	if inPlace && frameHeaderLength+len(payload) > len(buf) {
		inPlace = false // cannot be placed in the buffer at all
	}
	if inPlace {
		copy(buf[frameHeaderLength:], payload)
		f.Payload = buf[frameHeaderLength : frameHeaderLength+len(payload)]
		off = frameHeaderLength
	} else {
		f.Payload = append([]byte{}, payload...)
	}
	n, err := o.obfuscate(f, buf, off)
	if len(payload) > c04Max {
		if err == nil && n > c04Limit {
			return "over-limit", fmt.Sprintf("payload %d produced %d > limit", len(payload), n)
		}
		if err != nil {
			return "", ""
		}
	} else if err != nil {
		return "encode-error", fmt.Sprintf("obfuscate failed for payload %d seq %d: %v", len(payload), seq, err)
	}
	if n > c04Limit || n > len(buf) {
		return "over-limit", fmt.Sprintf("message of %d bytes exceeds the limit %d (payload %d)", n, c04Limit, len(payload))
	}
	msg := append([]byte{}, buf[:n]...)
	extra := n - frameHeaderLength - len(payload)
	pad := extra - ref.TagLen()
	if pad < 0 || extra > 255 {
		return "layout", fmt.Sprintf("extra length %d out of range (tag %d)", extra, ref.TagLen())
	}
	if seq < 5 {
		r.Max("padding_max_seen", int64(pad))
		if pad == 0 {
			r.Count("padding_zero_seen", 1)
		}
	} else if pad != 0 {
		return "layout", fmt.Sprintf("padding %d on a frame with seq %d >= 5", pad, seq)
	}
	// (2) the independent decoder understands Cloak's bytes
	rf, err := ref.Decode(msg)
	if err != nil {
		return "ref-decode", fmt.Sprintf("reference decoder rejects Cloak's message (payload %d, seq %d, method %d): %v", len(payload), seq, ref.Method, err)
	}
	if d := frameEq(&Frame{StreamID: rf.StreamID, Seq: rf.Seq, Closing: rf.Closing, Payload: rf.Payload}, sid, seq, closing, payload); d != "" {
		return "ref-decode", "reference decoder sees a different frame: " + d
	}
	if rf.ExtraLen != extra {
		return "layout", fmt.Sprintf("extra length byte %d but message has %d extra bytes", rf.ExtraLen, extra)
	}
	// (1) Cloak's own decoder round-trips
	var back Frame
	if err := o.deobfuscate(&back, append([]byte{}, msg...)); err != nil {
		return "roundtrip", fmt.Sprintf("deobfuscate rejects own message: %v", err)
	}
	if d := frameEq(&back, sid, seq, closing, payload); d != "" {
		return "roundtrip", "round trip differs: " + d
	}
	// (6) deterministic case: byte-exact agreement with the reference encoder
	if ref.Method != vk.RefPlain && seq >= 5 {
		want, err := ref.Encode(vk.RefFrame{StreamID: sid, Seq: seq, Closing: closing, Payload: payload}, nil, [8]byte{})
		if err != nil {
			return "harness", err.Error()
		}
		if !bytes.Equal(want, msg) {
			i := 0
			for i < len(want) && i < len(msg) && want[i] == msg[i] {
				i++
			}
			return "wire-format", fmt.Sprintf("deterministic encoding differs from the reference at byte %d (len %d vs %d)", i, len(msg), len(want))
		}
		r.Count("byte_exact_encodings", 1)
	}
	// (3) Cloak decodes what the reference encoder produces (any padding the layout allows)
	padLen := 0
	if len(payload) <= c04Max {
		padLen = rng.IntN(255 - ref.TagLen() + 1)
	}
	padding := make([]byte, padLen)
	rand.Read(padding)
	var trailer [8]byte
	rand.Read(trailer[:])
	rmsg, err := ref.Encode(vk.RefFrame{StreamID: sid, Seq: seq, Closing: closing, Payload: payload}, padding, trailer)
	if err != nil {
		return "harness", err.Error()
	}
	var back2 Frame
	if err := o.deobfuscate(&back2, append([]byte{}, rmsg...)); err != nil {
		return "foreign-decode", fmt.Sprintf("Cloak rejects a reference-encoded message (payload %d, pad %d): %v", len(payload), padLen, err)
	}
	if d := frameEq(&back2, sid, seq, closing, payload); d != "" {
		return "foreign-decode", "Cloak decodes a reference-encoded message differently: " + d
	}
	// (3b) plain method: messages without a dedicated nonce trailer (extra length 0..7, the last 8
	// bytes of payload+extra key the header cipher) - what older encoders of the same wire format emit
	if ref.TagLen() == 8 && o.payloadCipher == nil {
		ex := rng.IntN(8)
		if len(payload)+ex < 8 {
			ex = 8 - len(payload)
		}
		extra := make([]byte, ex)
		rand.Read(extra)
		smsg, err := ref.EncodePlainShort(vk.RefFrame{StreamID: sid, Seq: seq, Closing: closing, Payload: payload}, extra)
		if err != nil {
			return "harness", err.Error()
		}
		var back3 Frame
		if err := o.deobfuscate(&back3, append([]byte{}, smsg...)); err != nil {
			return "foreign-decode", fmt.Sprintf("Cloak rejects a plain-method message whose extra length is %d (payload %d bytes, no dedicated nonce trailer): %v", ex, len(payload), err)
		}
		if d := frameEq(&back3, sid, seq, closing, payload); d != "" {
			return "foreign-decode", fmt.Sprintf("Cloak decodes a plain-method message with extra length %d differently: %s", ex, d)
		}
		r.Count("plain_short_trailer_messages", 1)
	}
	return "", ""
}

func TestVerif_C04(t *testing.T) {
	r := vk.Open()
	defer r.Close()
	pool := make([]byte, 1<<16)
	rand.Read(pool)
	const block = 1024

	for _, m := range c04Methods {
		for lo := 1; lo <= c04Max; lo += block {
			hi := lo + block - 1
			if hi > c04Max {
				hi = c04Max
			}
			id := fmt.Sprintf("lengths/%s/%d-%d", m.name, lo, hi)
			if !r.Mine(id) {
				continue
			}
			r.Case(id, map[string]any{"method": m.name, "payload_lengths": [2]int{lo, hi}})
			rng := r.Rand("c04", id)
			var key [32]byte
			for i := range key {
				key[i] = byte(rng.Uint32())
			}
			obf, err := MakeObfuscator(m.id, key)
			if err != nil {
				r.Violation(id, "C04:make-obfuscator", err.Error(), nil)
				continue
			}
			ref, _ := vk.NewRefCodec(m.id, key)
			var vkind, vdet string
			var vparams any
			for L := lo; L <= hi && vkind == ""; L++ {
				classes := []int{L % 9}
				if r.Thorough() {
					classes = []int{0, 1, 2, 3, 4, 5, 6, 7, 8}
				} else if L%4 == 0 {
					classes = append(classes, 5+(L/4)%4)
				}
				for _, c := range classes {
					seq := c04SeqClass(rng, c)
					sid := rng.Uint32()
					switch rng.IntN(8) {
					case 0:
						sid = 0
					case 1:
						sid = 1<<32 - 1
					}
					closing := byte(rng.IntN(3))
					off := rng.IntN(len(pool) - L)
					payload := pool[off : off+L]
					reps := 1
					if c < 5 && r.Thorough() {
						reps = 3
					}
					for rep := 0; rep < reps && vkind == ""; rep++ {
						for _, inPlace := range []bool{false, true} {
							k, d := c04One(r, &obf, ref, rng, sid, seq, closing, payload, inPlace)
							r.Count("evaluations", 1)
							r.Count("distinct_enumerated", 1)
							if k != "" {
								vkind, vdet = k, d
								vparams = map[string]any{"method": m.name, "len": L, "seq": seq, "sid": sid, "closing": closing, "in_place": inPlace, "key": hex.EncodeToString(key[:])}
								break
							}
						}
					}
				}
			}
			if vkind != "" {
				r.Violation(id, "C04:"+vkind, fmt.Sprintf("%s; %v", vdet, vparams), vparams)
			} else {
				r.Pass(id)
			}
			r.Sample(map[string]any{"method": m.name, "payload_lengths": [2]int{lo, hi}, "seq_classes": "0..4 (padded), 5, 2^32-1, 2^32, random64"})
		}
	}

	// boundary cases: empty payload refused; payloads above max never exceed the limit
	id := "boundaries"
	if r.Mine(id) {
		r.Case(id, nil)
		bad := ""
		for _, m := range c04Methods {
			var key [32]byte
			rand.Read(key[:])
			obf, _ := MakeObfuscator(m.id, key)
			ref, _ := vk.NewRefCodec(m.id, key)
			buf := make([]byte, c04Limit)
			if n, err := obf.obfuscate(&Frame{StreamID: 1, Seq: 9, Payload: []byte{}}, buf, 0); err == nil {
				bad = fmt.Sprintf("empty payload accepted (%s), produced %d bytes", m.name, n)
			}
			rng := r.Rand("c04b", m.name)
			for L := c04Max + 1; L <= c04Max+300 && bad == ""; L++ {
				for _, seq := range []uint64{0, 4, 5} {
					if k, d := c04One(r, &obf, ref, rng, 3, seq, 0, pool[:L], L%2 == 0); k != "" {
						bad = k + ": " + d
					}
					r.Count("evaluations", 1)
					r.Count("distinct_enumerated", 1)
				}
			}
		}
		if bad != "" {
			r.Violation(id, "C04:boundary", bad, nil)
		} else {
			r.Pass(id)
		}
	}

	// session level: whatever Stream.Write / ReadFrom put on the wire respects the configured limit
	for li, limit := range []int{c04Limit, 0, 5000, 777, 4097, 16400, 12345} {
		for _, m := range c04Methods {
			id := fmt.Sprintf("session-limit/%d/%s", limit, m.name)
			if !r.Mine(id) {
				continue
			}
			r.Case(id, map[string]any{"limit": limit, "method": m.name})
			k, d := c04SessionLimit(t, r, id, m.id, limit, li)
			r.Count("distinct_enumerated", 1)
			if k != "" {
				r.Violation(id, "C04:"+k, d, nil)
			} else {
				r.Pass(id)
			}
		}
	}

	// golden vectors frozen from the pinned commit
	id = "golden"
	if r.Mine(id) {
		r.Case(id, nil)
		path := filepath.Join(os.Getenv("VERIF_DIR"), "golden", "frames.json")
		raw, err := os.ReadFile(path)
		if err != nil {
			r.Inconclusive(id, "golden vectors missing: "+err.Error())
		} else {
			var gs []c04Golden
			json.Unmarshal(raw, &gs)
			bad := ""
			for i, g := range gs {
				var key [32]byte
				kb, _ := hex.DecodeString(g.Key)
				copy(key[:], kb)
				payload, _ := hex.DecodeString(g.Payload)
				msg, _ := hex.DecodeString(g.Message)
				obf, err := MakeObfuscator(g.Method, key)
				if err != nil {
					bad = err.Error()
					break
				}
				var f Frame
				if err := obf.deobfuscate(&f, append([]byte{}, msg...)); err != nil {
					bad = fmt.Sprintf("golden vector %d no longer decodes: %v", i, err)
					break
				}
				if d := frameEq(&f, g.StreamID, g.Seq, g.Closing, payload); d != "" {
					bad = fmt.Sprintf("golden vector %d decodes differently: %s", i, d)
					break
				}
				if g.Method != EncryptionMethodPlain && g.Seq >= 5 {
					buf := make([]byte, c04Limit)
					n, err := obf.obfuscate(&Frame{StreamID: g.StreamID, Seq: g.Seq, Closing: g.Closing, Payload: payload}, buf, 0)
					if err != nil || !bytes.Equal(buf[:n], msg) {
						bad = fmt.Sprintf("golden vector %d no longer re-encodes identically (err %v)", i, err)
						break
					}
				}
				ref, _ := vk.NewRefCodec(g.Method, key)
				if rf, err := ref.Decode(msg); err != nil || !bytes.Equal(rf.Payload, payload) {
					bad = fmt.Sprintf("reference codec drifted on golden vector %d: %v", i, err)
					break
				}
				r.Count("golden_vectors", 1)
				r.Count("evaluations", 1)
				r.Count("distinct_enumerated", 1)
			}
			if bad != "" {
				r.Violation(id, "C04:golden", bad, nil)
			} else if len(gs) == 0 {
				r.Inconclusive(id, "no golden vectors")
			} else {
				r.Pass(id)
			}
		}
	}
	r.Distinct("cases", "lengths")
	r.Distinct("cases", "golden+boundaries")
}

// TestVerif_GenGolden writes the golden vectors (run once by hand at the pinned commit:
// VERIF_GEN_GOLDEN=<path> <binary> -test.run TestVerif_GenGolden).
func TestVerif_GenGolden(t *testing.T) {
	path := os.Getenv("VERIF_GEN_GOLDEN")
	if path == "" {
		t.Skip("not requested")
	}
	rng := mrand.New(mrand.NewPCG(20260923, 4))
	var out []c04Golden
	for _, m := range c04Methods {
		for _, L := range []int{1, 2, 15, 16, 17, 100, 1000, 4096, c04Max} {
			for _, seq := range []uint64{0, 3, 5, 6, 1<<32 - 1, 1 << 40} {
				var key [32]byte
				for i := range key {
					key[i] = byte(rng.Uint32())
				}
				payload := make([]byte, L)
				for i := range payload {
					payload[i] = byte(rng.Uint32())
				}
				obf, _ := MakeObfuscator(m.id, key)
				buf := make([]byte, c04Limit)
				sid := rng.Uint32()
				closing := byte(rng.IntN(3))
				n, err := obf.obfuscate(&Frame{StreamID: sid, Seq: seq, Closing: closing, Payload: payload}, buf, 0)
				if err != nil {
					t.Fatal(err)
				}
				ref, _ := vk.NewRefCodec(m.id, key)
				rf, err := ref.Decode(buf[:n])
				if err != nil || !bytes.Equal(rf.Payload, payload) || rf.Seq != seq || rf.StreamID != sid || rf.Closing != closing {
					t.Fatalf("codecs disagree while generating: %v", err)
				}
				out = append(out, c04Golden{m.id, hex.EncodeToString(key[:]), sid, seq, closing, hex.EncodeToString(payload), hex.EncodeToString(buf[:n])})
			}
		}
	}
	b, _ := json.Marshal(out)
	os.MkdirAll(filepath.Dir(path), 0755)
	if err := os.WriteFile(path, b, 0644); err != nil {
		t.Fatal(err)
	}
}

// c04SessionLimit drives a real Session (Write and ReadFrom) with payload sizes around the
// per-frame maximum and checks every record on the wire against the configured limit and the
// reference decoder.
func c04SessionLimit(t *testing.T, r *vk.Reporter, id string, method byte, limit int, salt int) (kind, detail string) {
	rng := r.Rand("c04sl", id)
	eff := limit
	if eff <= 0 {
		eff = 1<<14 + 256
	}
	maxPayload := eff - 14 - 255
	p := inBubble(t, func() {
		var key [32]byte
		for i := range key {
			key[i] = byte(rng.Uint32())
		}
		obf, _ := MakeObfuscator(method, key)
		ref, _ := vk.NewRefCodec(method, key)
		sesh := MakeSession(9, SessionConfig{Obfuscator: obf, MsgOnWireSizeLimit: limit, InactivityTimeout: 100 * time.Hour})
		net := vk.NewNet()
		pp := net.NewPipe(vk.PipeOpts{NoCut: true})
		sesh.AddConnection(common.NewTLSConn(pp.A))
		var want []byte
		sizes := []int{1, maxPayload - 1, maxPayload, maxPayload + 1, maxPayload + 2, 2*maxPayload + 1, 3 * maxPayload, eff, eff + 1, 1 + rng.IntN(2*eff)}
		for round := 0; round < 3; round++ {
			st, err := sesh.OpenStream()
			if err != nil {
				kind, detail = "harness", err.Error()
				return
			}
			pr, pw := io.Pipe()
			useRF := round == 1
			if useRF {
				go st.ReadFrom(pr)
			}
			for _, sz := range sizes {
				b := make([]byte, sz)
				vk.Fill(uint64(0xC04000+round), int64(len(want))+8, b)
				want = append(want, b...)
				var err error
				if useRF {
					_, err = pw.Write(b)
				} else {
					_, err = st.Write(b)
				}
				if err != nil {
					kind, detail = "write-failed", fmt.Sprintf("write of %d bytes with limit %d failed: %v", sz, eff, err)
					return
				}
			}
			pw.Close()
			synctest_Wait()
		}
		wire, _ := pp.Wire(0)
		var got []byte
		pos := 0
		nrec := 0
		for pos+5 <= len(wire) {
			L := int(wire[pos+3])<<8 | int(wire[pos+4])
			if pos+5+L > len(wire) {
				kind, detail = "bad-record", "wire does not split into records"
				return
			}
			if L > eff {
				kind, detail = "over-limit", fmt.Sprintf("a message of %d bytes was put on the wire although the configured on-wire size limit is %d (method %d)", L, eff, method)
				return
			}
			f, err := ref.Decode(wire[pos+5 : pos+5+L])
			if err != nil {
				kind, detail = "ref-decode", fmt.Sprintf("record %d does not decode with the reference codec: %v", nrec, err)
				return
			}
			if f.Closing == 0 {
				got = append(got, f.Payload...)
			}
			r.Max("largest_message_seen_limit_"+fmt.Sprint(eff), int64(L))
			pos += 5 + L
			nrec++
		}
		if !bytes.Equal(got, want) {
			kind, detail = "wire-content", fmt.Sprintf("payloads decoded from the wire (%d bytes) differ from what was written (%d bytes)", len(got), len(want))
		}
		r.Count("evaluations", int64(nrec))
		sesh.Close()
		pp.A.Close()
		pp.B.Close()
		synctest_Wait()
	})
	if p != nil && kind == "" && !isBubbleLeftover(rigPanicStr(p)) {
		kind, detail = "panic", rigPanicStr(p)
	}
	return
}
