package multiplex

// C03 - closing a stream delivers everything written before it, then end-of-stream.
// Rig A in a bubble, router mode: the harness recognises the closing notice on the wire (reference
// codec) and places it before / between / after the data travelling on other connections.

import (
	"errors"
	"fmt"
	"io"
	"math/rand/v2"
	"runtime"
	"sync"
	"testing"
	"time"

	vk "github.com/cbeuw/Cloak/internal/verifkit"
)

type c03Case struct {
	Cfg        rigCfg `json:"cfg"`
	Closer     string `json:"closer"` // opener, acceptor, both
	B          []int  `json:"writes_before_close"`
	B2         []int  `json:"other_side_writes,omitempty"`
	ReaderLate bool   `json:"reader_starts_after_delivery,omitempty"`
	LocalFirst bool   `json:"local_close_with_unread_bytes,omitempty"`
}

type c03End struct {
	mu       sync.Mutex
	got      []byte
	readErr  error
	readDone bool
}

func (e *c03End) readAll(rd io.Reader, rng *rand.Rand) {
	buf := make([]byte, 1+rng.IntN(30000))
	for {
		n, err := rd.Read(buf[:1+rng.IntN(len(buf))])
		e.mu.Lock()
		e.got = append(e.got, buf[:n]...)
		if err != nil {
			e.readErr = err
			e.readDone = true
			e.mu.Unlock()
			return
		}
		e.mu.Unlock()
	}
}

func c03Expect(tag uint64, sizes []int) []byte {
	b := make([]byte, sum(sizes))
	rigFill(tag, int64(len(b)), 0, b)
	return b
}

func isPrefix(p, full []byte) bool {
	if len(p) > len(full) {
		return false
	}
	for i := range p {
		if p[i] != full[i] {
			return false
		}
	}
	return true
}

func c03Run(t *testing.T, r *vk.Reporter, id string, c *c03Case) (kind, detail string) {
	rng := r.Rand("c03run", id)
	var vmu sync.Mutex
	setV := func(k, d string) {
		vmu.Lock()
		if kind == "" {
			kind, detail = k, d
		}
		vmu.Unlock()
	}
	p := inBubble(t, func() {
		c.Cfg.Inactivity = 100 * time.Hour
		g := newRigA(c.Cfg, rng)
		for i := 0; i < g.nconn(); i++ {
			g.addConn()
		}
		const tagO, tagA = uint64(0x0C03000000000001), uint64(0x0C030000000000A1)
		var hello []int
		wantAtAcceptor := c03Expect(tagO, c.B) // bytes written by the opener
		var wantAtOpener []byte
		openerWrites, acceptorWrites := c.B, []int(nil)
		switch c.Closer {
		case "acceptor":
			hello = []int{1 + rng.IntN(40)}
			openerWrites = hello
			acceptorWrites = c.B
			wantAtAcceptor = c03Expect(tagO, hello)
			wantAtOpener = c03Expect(tagA, c.B)
		case "both":
			acceptorWrites = c.B2
			wantAtOpener = c03Expect(tagA, c.B2)
		}
		var opEnd, acEnd c03End
		var acStream *Stream
		var parkedEnd *c03End
		accepted := make(chan struct{})
		var postWriteErrO, postWriteErrA error
		postO, postA := false, false

		st, err := g.cli.OpenStream()
		if err != nil {
			setV("harness", err.Error())
			return
		}
		// acceptor
		go func() {
			conn, err := g.srv.Accept()
			if err != nil {
				return
			}
			acStream = conn.(*Stream)
			close(accepted)
			if c.Closer == "opener" || c.Closer == "both" {
				if c.Closer == "both" {
					go func() {
						writeChunks(acStream, tagA, sum(acceptorWrites), acceptorWrites, func(string, ...any) {})
						acStream.Close()
						_, postWriteErrA = acStream.Write([]byte("x"))
						postA = true
					}()
				}
				if !c.ReaderLate {
					acEnd.readAll(acStream, rand.New(rand.NewPCG(1, 2)))
				}
				return
			}
			// closer == acceptor: read the hello, write B, close
			hb := make([]byte, sum(hello))
			if _, err := io.ReadFull(acStream, hb); err != nil {
				setV("harness-hello", err.Error())
				return
			}
			acEnd.got = hb
			var parked c03End
			if c.LocalFirst {
				// a reader parked on the closing side must be released by the local Close
				go parked.readAll(acStream, rand.New(rand.NewPCG(3, 4)))
				for k := 0; k < 20; k++ {
					runtime.Gosched()
				}
			}
			writeChunks(acStream, tagA, sum(acceptorWrites), acceptorWrites, func(f string, a ...any) { setV("write-failed", fmt.Sprintf(f, a...)) })
			acStream.Close()
			_, postWriteErrA = acStream.Write([]byte("x"))
			postA = true
			if c.LocalFirst {
				parkedEnd = &parked
			}
		}()
		// opener
		go func() {
			if c.Closer == "acceptor" {
				writeChunks(st, tagO, sum(hello), hello, func(f string, a ...any) { setV("write-failed", fmt.Sprintf(f, a...)) })
				opEnd.readAll(st, rand.New(rand.NewPCG(5, 6)))
				return
			}
			if c.Closer == "both" {
				go opEnd.readAll(st, rand.New(rand.NewPCG(5, 6)))
			}
			writeChunks(st, tagO, sum(openerWrites), openerWrites, func(f string, a ...any) { setV("write-failed", fmt.Sprintf(f, a...)) })
			st.Close()
			_, postWriteErrO = st.Write([]byte("x"))
			postO = true
		}()
		g.settle()
		if c.ReaderLate && acStream != nil {
			go acEnd.readAll(acStream, rand.New(rand.NewPCG(7, 8)))
			g.settle()
		}
		time.Sleep(10 * time.Minute) // virtual
		g.settle()

		check := func(side string, e *c03End, want []byte, mustBeComplete bool) {
			e.mu.Lock()
			defer e.mu.Unlock()
			if !isPrefix(e.got, want) {
				setV("wrong-bytes", fmt.Sprintf("%s read %d bytes that are not a prefix of the %d bytes written by the peer", side, len(e.got), len(want)))
				return
			}
			if !e.readDone {
				setV("reader-parked", fmt.Sprintf("%s reader still parked 10 virtual minutes after the peer closed the stream and everything was delivered (got %d of %d bytes)", side, len(e.got), len(want)))
				return
			}
			if !errors.Is(e.readErr, ErrBrokenStream) {
				setV("wrong-error", fmt.Sprintf("%s reader ended with %v, want the broken-stream error", side, e.readErr))
				return
			}
			if mustBeComplete && len(e.got) != len(want) {
				setV("lost-tail", fmt.Sprintf("%s got the broken-stream error after %d of the %d bytes written before the close", side, len(e.got), len(want)))
			}
		}
		select {
		case <-accepted:
		default:
			if len(c.B) > 0 || c.Closer != "opener" {
				setV("not-accepted", "the stream never reached the acceptor")
			} else {
				// zero bytes then close: the peer may learn about the stream only through the closing
				// frame; a stream that is never surfaced carries no bytes, which satisfies the statement
				r.Count("zero_byte_streams_not_surfaced", 1)
			}
		}
		switch c.Closer {
		case "opener":
			if acStream != nil {
				check("acceptor", &acEnd, wantAtAcceptor, true)
			}
		case "acceptor":
			check("opener", &opEnd, wantAtOpener, true)
		case "both":
			// each side closed the stream itself: prefix + error, completeness not demanded
			check("acceptor", &acEnd, wantAtAcceptor, false)
			check("opener", &opEnd, wantAtOpener, false)
		}
		if parkedEnd != nil {
			parkedEnd.mu.Lock()
			if !parkedEnd.readDone {
				setV("local-reader-parked", "a Read blocked on the closing side did not return after the local Close")
			}
			parkedEnd.mu.Unlock()
		}
		if postO && postWriteErrO == nil {
			setV("write-after-close", "Write succeeded on the opener side after its own Close")
		}
		if postA && postWriteErrA == nil {
			setV("write-after-close", "Write succeeded on the acceptor side after its own Close")
		}
		// the side that processed the peer's close must refuse writes too
		if c.Closer == "opener" && acStream != nil && acEnd.readDone {
			if _, err := acStream.Write([]byte("y")); err == nil {
				setV("write-after-peer-close", "Write succeeded on the acceptor side after it had processed the peer's close")
			}
		}
		if c.Closer == "acceptor" && opEnd.readDone {
			if _, err := st.Write([]byte("y")); err == nil {
				setV("write-after-peer-close", "Write succeeded on the opener side after it had processed the peer's close")
			}
		}
		r.Count("records_routed", int64(g.released))
		r.Distinct("arrival_orders", vk.Hash64(g.arrivals))
		g.closeAll()
		synctest_Wait()
	})
	if p != nil && kind == "" && !isBubbleLeftover(rigPanicStr(p)) {
		kind, detail = "panic", rigPanicStr(p)
	}
	return
}

// c03LocalUnread: bytes that had arrived locally stay readable after a local Close.
func c03LocalUnread(t *testing.T, r *vk.Reporter, id string, cfg rigCfg, sizes []int) (kind, detail string) {
	rng := r.Rand("c03lu", id)
	p := inBubble(t, func() {
		cfg.Inactivity = 100 * time.Hour
		g := newRigA(cfg, rng)
		for i := 0; i < g.nconn(); i++ {
			g.addConn()
		}
		st, _ := g.cli.OpenStream()
		want := c03Expect(0xC03B, sizes)
		go writeChunks(st, 0xC03B, sum(sizes), sizes, func(string, ...any) {})
		var ac *Stream
		go func() {
			c, err := g.srv.Accept()
			if err == nil {
				ac = c.(*Stream)
			}
		}()
		g.settle()
		if ac == nil {
			kind, detail = "not-accepted", "stream not accepted"
			return
		}
		ac.Close() // local close with everything unread
		var e c03End
		go e.readAll(ac, rand.New(rand.NewPCG(9, 9)))
		g.settle()
		if !e.readDone {
			kind, detail = "reader-parked", "Read after a local Close neither returned the buffered bytes nor an error"
		} else if string(e.got) != string(want) {
			kind, detail = "local-bytes-lost", fmt.Sprintf("after a local Close only %d of the %d bytes that had already arrived were readable", len(e.got), len(want))
		}
		g.closeAll()
		synctest_Wait()
	})
	if p != nil && kind == "" && !isBubbleLeftover(rigPanicStr(p)) {
		kind, detail = "panic", rigPanicStr(p)
	}
	return
}

func TestVerif_C03(t *testing.T) {
	r := vk.Open()
	defer r.Close()
	methods := []byte{EncryptionMethodPlain, EncryptionMethodAES256GCM, EncryptionMethodChaha20Poly1305, EncryptionMethodAES128GCM}
	lens := [][]int{{}, {1}, {rigMax - 1}, {rigMax}, {rigMax + 1}, {2*rigMax + 5}, {1, 1}, {5, rigMax, 7}, {100, 200, 300, 400}}
	policies := []string{"close-first", "close-last", "random", "lifo", "starve"}
	closers := []string{"opener", "acceptor", "both"}
	n := r.Pick(360, 9000)
	for i := 0; i < n; i++ {
		id := fmt.Sprintf("close-%d", i)
		rng := r.Rand("c03", i)
		c := &c03Case{}
		c.Cfg = rigCfg{Method: methods[i%4], NumConn: []int{0, 1, 2, 3, 4, 8}[(i/4)%6], Router: true, Policy: policies[(i/24)%len(policies)], Seg: []string{"all", "random", "small"}[rng.IntN(3)]}
		c.Closer = closers[(i/120)%3]
		if i >= 360 {
			c.Closer = closers[rng.IntN(3)]
			c.Cfg.Policy = policies[rng.IntN(len(policies))]
		}
		c.B = append([]int{}, lens[rng.IntN(len(lens))]...)
		if rng.IntN(4) == 0 {
			c.B = nil
			for k := 0; k < 1+rng.IntN(4); k++ {
				c.B = append(c.B, 1+rng.IntN(40000))
			}
		}
		if c.Closer == "both" {
			c.B2 = append([]int{}, lens[1+rng.IntN(len(lens)-1)]...)
			if len(c.B) == 0 {
				c.B = []int{3}
			}
		}
		c.ReaderLate = c.Closer == "opener" && rng.IntN(3) == 0
		c.LocalFirst = c.Closer == "acceptor" && rng.IntN(2) == 0
		if !r.Mine(id) {
			continue
		}
		r.Case(id, c)
		k, d := c03Run(t, r, id, c)
		r.Distinct("cases", vk.Hash64(c.Cfg, c.Closer, c.B, c.B2, c.ReaderLate, c.LocalFirst))
		if i%97 == 0 {
			r.Sample(c)
		}
		if k != "" {
			r.Violation(id, "C03:"+k, fmt.Sprintf("%s; case %+v", d, *c), c)
		} else {
			r.Pass(id)
		}
	}
	for i := 0; i < r.Pick(12, 200); i++ {
		id := fmt.Sprintf("cross-close-%d", i)
		if !r.Mine(id) {
			continue
		}
		cfg := rigCfg{Method: methods[i%4], NumConn: 1 + i%3, Seg: "all", Window: []int{4096, 16384, 65536}[i%3], Procs: []int{2, 4, 16}[i%3]}
		r.Case(id, cfg)
		k, d := c03CrossClose(t, r, id, cfg, []int{200000, 1 << 20}[i%2])
		r.Distinct("cases", vk.Hash64("xc", cfg, i))
		r.Count("cross_close_cases", 1)
		if k != "" {
			r.Violation(id, "C03:"+k, fmt.Sprintf("%s; crossing closes under back-pressure, cfg %+v", d, cfg), cfg)
		} else {
			r.Pass(id)
		}
	}
	for i := 0; i < r.Pick(16, 200); i++ {
		id := fmt.Sprintf("close-send-fails-%d", i)
		if !r.Mine(id) {
			continue
		}
		cfg := rigCfg{Method: methods[i%4], NumConn: []int{1, 2, 4, 0}[(i/4)%4], Seg: "all"}
		r.Case(id, cfg)
		k, d := c03CloseSendFails(t, r, id, cfg, i%2 == 0)
		r.Distinct("cases", vk.Hash64("csf", cfg, i))
		r.Count("close_send_fails_cases", 1)
		if k != "" {
			r.Violation(id, "C03:"+k, fmt.Sprintf("%s; cfg %+v", d, cfg), cfg)
		} else {
			r.Pass(id)
		}
	}
	for i := 0; i < r.Pick(24, 300); i++ {
		id := fmt.Sprintf("local-unread-%d", i)
		if !r.Mine(id) {
			continue
		}
		rng := r.Rand("c03l", i)
		cfg := rigCfg{Method: methods[i%4], NumConn: 1 + i%4, Router: true, Policy: "random", Seg: "all"}
		sizes := []int{1 + rng.IntN(3000), 1 + rng.IntN(40000)}
		if i%12 == 7 {
			// a large unread backlog (several MiB) at the moment of the local Close
			sizes = nil
			for k := 0; k < []int{80, 120}[(i/12)%2]; k++ {
				sizes = append(sizes, 65536)
			}
			cfg.Router = false
		}
		r.Case(id, map[string]any{"cfg": cfg, "writes": len(sizes), "bytes": sum(sizes)})
		k, d := c03LocalUnread(t, r, id, cfg, sizes)
		r.Distinct("cases", vk.Hash64("lu", cfg, sizes))
		if k != "" {
			r.Violation(id, "C03:"+k, d, nil)
		} else {
			r.Pass(id)
		}
	}
}

// c03CrossClose: both sides are in the middle of large writes on different streams over
// connections with bounded windows (so writes really block until the peer reads), and each side
// closes the stream the other one is writing to. Every reader must see a prefix then the error,
// every write must return, the other stream of the session must still carry data afterwards.
func c03CrossClose(t *testing.T, r *vk.Reporter, id string, cfg rigCfg, big int) (kind, detail string) {
	rng := r.Rand("c03x", id)
	p, leftover := vk.InBubble(t, func() {
		cfg.Inactivity = 100 * time.Hour
		g := newRigA(cfg, rng)
		for i := 0; i < g.nconn(); i++ {
			g.addConn()
		}
		// streams X (client writes), Y (server writes), Z (ping-pong afterwards)
		x, _ := g.cli.OpenStream()
		x.Write([]byte("x-open"))
		yc, _ := g.cli.OpenStream()
		yc.Write([]byte("y-open"))
		z, _ := g.cli.OpenStream()
		z.Write([]byte("z-open"))
		var sx, sy, sz *Stream
		for k := 0; k < 3; k++ {
			c, err := g.srv.Accept()
			if err != nil {
				kind, detail = "harness", err.Error()
				return
			}
			st := c.(*Stream)
			b := make([]byte, 6)
			io.ReadFull(st, b)
			switch string(b[:1]) {
			case "x":
				sx = st
			case "y":
				sy = st
			default:
				sz = st
			}
		}
		if sx == nil || sy == nil || sz == nil {
			kind, detail = "harness", "streams not accepted"
			return
		}
		var wdone [2]bool
		var rdone [2]bool
		go func() { x.Write(make([]byte, big)); wdone[0] = true }()  // client mid-write on X
		go func() { sy.Write(make([]byte, big)); wdone[1] = true }() // server mid-write on Y
		go func() { io.Copy(io.Discard, sx); rdone[0] = true }()     // server reads X slowly: never mind
		go func() { io.Copy(io.Discard, yc); rdone[1] = true }()
		for k := 0; k < 30; k++ {
			runtime.Gosched()
		}
		// crossing closes: the server closes X (which the client is writing), the client closes Y
		go sx.Close()
		go yc.Close()
		vk.Wait()
		time.Sleep(10 * time.Minute)
		vk.Wait()
		if !wdone[0] || !wdone[1] {
			kind, detail = "write-blocked", fmt.Sprintf("writes in flight when the peer closed their streams never returned (client write returned=%v, server write returned=%v)", wdone[0], wdone[1])
			return
		}
		if !rdone[0] || !rdone[1] {
			kind, detail = "reader-parked", "a reader of a closed stream is still parked 10 virtual minutes later"
			return
		}
		// the session must still work
		msg := vk.Datagram(3, 3, 500)
		z.Write(msg)
		got := make([]byte, len(msg))
		sz.SetReadDeadline(time.Now().Add(time.Minute))
		if _, err := io.ReadFull(sz, got); err != nil || string(got) != string(msg) {
			kind, detail = "session-stalled", fmt.Sprintf("after the crossing closes another stream of the same healthy session no longer carries data: %v", err)
		}
		g.closeAll()
		vk.Wait()
	})
	if p != nil && !leftover && kind == "" {
		kind, detail = "panic", fmt.Sprint(p)
	}
	return
}

// c03CloseSendFails: a reader is parked in Read when its own side closes the stream and the send of
// the closing notice fails (the connection reports a write error). "Once a side has closed the
// stream its blocked reads return" - also then.
func c03CloseSendFails(t *testing.T, r *vk.Reporter, id string, cfg rigCfg, byOpener bool) (kind, detail string) {
	rng := r.Rand("c03f", id)
	p, leftover := vk.InBubble(t, func() {
		cfg.Inactivity = 100 * time.Hour
		g := newRigA(cfg, rng)
		for i := 0; i < g.nconn(); i++ {
			g.addConn()
		}
		st, err := g.cli.OpenStream()
		if err != nil {
			kind, detail = "harness", err.Error()
			return
		}
		st.Write([]byte("hello"))
		var ac *Stream
		go func() {
			c, err := g.srv.Accept()
			if err == nil {
				ac = c.(*Stream)
			}
		}()
		vk.Wait()
		if ac == nil {
			kind, detail = "not-accepted", "stream not accepted"
			return
		}
		b := make([]byte, 5)
		io.ReadFull(ac, b)
		mine, dir := st, 0
		if !byOpener {
			mine, dir = ac, 1
		}
		var readReturned, closeReturned bool
		var readErr error
		go func() {
			_, readErr = mine.Read(make([]byte, 100))
			readReturned = true
		}()
		vk.Wait()
		if readReturned {
			kind, detail = "harness", "the reader was not parked"
			return
		}
		for _, pp := range g.pipes {
			pp.FailNextWrite(dir)
		}
		go func() { mine.Close(); closeReturned = true }()
		vk.Wait()
		time.Sleep(10 * time.Minute)
		vk.Wait()
		if !closeReturned {
			kind, detail = "close-blocked", "Close did not return within 10 virtual minutes after the send of its closing notice failed"
			return
		}
		if !readReturned {
			kind, detail = "reader-parked", "a Read that was blocked when its own side closed the stream is still parked 10 virtual minutes later (the send of the closing notice had failed)"
			return
		}
		if readErr == nil {
			kind, detail = "reader-no-error", "the blocked Read returned without an error and without bytes after the local Close"
			return
		}
		// a later Read must fail too, not block
		var again bool
		go func() { mine.Read(make([]byte, 10)); again = true }()
		vk.Wait()
		time.Sleep(time.Minute)
		vk.Wait()
		if !again {
			kind, detail = "reader-parked", "a Read issued after the local Close blocks forever"
		}
		g.closeAll()
		vk.Wait()
	})
	if p != nil && !leftover && kind == "" {
		kind, detail = "panic", fmt.Sprint(p)
	}
	return
}
