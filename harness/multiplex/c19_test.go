package multiplex

// C19 - a limited user's throughput never exceeds the configured rates.
// Several real session pairs share one LimitedValve on the server side; the hostile network never
// blocks a write, so the (virtual) time of a record on the tap is the instant its tokens were
// granted. All-intervals bound evaluated exactly with a running minimum.

import (
	"fmt"
	"github.com/cbeuw/Cloak/internal/common"
	"io"
	"math/rand/v2"
	"sort"
	"sync"
	"testing"
	"time"

	vk "github.com/cbeuw/Cloak/internal/verifkit"
)

type c19Case struct {
	Rate     int64  `json:"rate_bytes_per_s"`
	Sessions int    `json:"sessions"`
	Conns    int    `json:"connections_per_session"`
	Streams  int    `json:"streams_per_session"`
	Sizes    []int  `json:"write_sizes"`
	Volume   int    `json:"bytes_per_stream"`
	IdleGap  bool   `json:"idle_gap_then_burst"`
	Dir      string `json:"direction"` // tx (server->client), rx (client->server), both
	Method   byte   `json:"method"`
	// Flood: the peer additionally sends records that the session will drop - "garbage" (does not
	// decode) or "closed-stream" (genuine frames of a stream that has been closed). They are upload
	// bytes of the limited user all the same.
	Flood string `json:"flood,omitempty"`
	// Unordered: datagram-mode sessions (the limiter is the same switchboard code path, the stream
	// layer is not). Storm: many short streams, each closed by the server right after a few bytes -
	// closing notices are bytes sent to the user like any others.
	Unordered bool `json:"unordered,omitempty"`
	Storm     bool `json:"close_storm,omitempty"`
}

type c19Ev struct {
	t time.Duration
	n int64
}

// c19Bound checks sum(n_i..n_j) <= 1.01*(rate*(t_j - t_i) + burst) for all i <= j. Returns the worst excess.
func c19Bound(evs []c19Ev, rate float64, burst float64) (excess float64, at c19Ev, span time.Duration) {
	sort.SliceStable(evs, func(a, b int) bool { return evs[a].t < evs[b].t })
	rp := rate * 1.01
	burst *= 1.01 // "within the limiter's 1% granularity" (its tokens arrive in quanta at tick boundaries)
	var cum float64
	minv := 0.0
	minT := time.Duration(0)
	first := true
	for _, e := range evs {
		// candidate interval start at this event: value C_{i-1} - rp*t_i
		v := cum - rp*e.t.Seconds()
		if first || v < minv {
			minv, minT, first = v, e.t, false
		}
		cum += float64(e.n)
		ex := (cum - rp*e.t.Seconds()) - minv - burst
		if ex > excess {
			excess, at, span = ex, e, e.t-minT
		}
	}
	return
}

func c19Run(t *testing.T, r *vk.Reporter, id string, c *c19Case) (kind, detail string, known bool) {
	rng := r.Rand("c19run", id)
	p := inBubble(t, func() {
		start := time.Now()
		valve := MakeValve(c.Rate, c.Rate)
		var rigs []*rigA
		var wg sync.WaitGroup
		var mu sync.Mutex
		var maxMsg int64
		var txFailed int
		var txSpans [][2]time.Duration // [start, done] of every server-side writer: while one is inside, tx is backlogged
		var seedMu sync.Mutex
		seedRng := rand.New(rand.NewPCG(rng.Uint64(), 99))
		nextSeed := func() uint64 {
			seedMu.Lock()
			defer seedMu.Unlock()
			return seedRng.Uint64()
		}
		for s := 0; s < c.Sessions; s++ {
			cfg := rigCfg{Method: c.Method, NumConn: c.Conns, Seg: "all", SrvValve: valve, Inactivity: 100 * time.Hour, Unordered: c.Unordered}
			g := newRigA(cfg, rng)
			g.net.KeepReads = true
			for i := 0; i < g.nconn(); i++ {
				g.addConn()
			}
			rigs = append(rigs, g)
			// server side: accepted streams: drain upstream; write downstream when tx is exercised
			go func() {
				for {
					conn, err := g.srv.Accept()
					if err != nil {
						return
					}
					go io.Copy(io.Discard, conn)
					if c.Dir == "tx" || c.Dir == "both" {
						wg.Add(1)
						go func() { // exactly one writer goroutine per stream (DESIGN 2.3)
							defer wg.Done()
							lr := rand.New(rand.NewPCG(nextSeed(), 3))
							left := c.Volume
							if c.IdleGap {
								time.Sleep(5 * time.Second)
							}
							t0 := time.Since(start)
							for left > 0 {
								sz := c.Sizes[lr.IntN(len(c.Sizes))]
								if sz > left {
									sz = left
								}
								if c.Unordered {
									// a datagram source sends on its own schedule: about 3 x rate over all writers
									time.Sleep(time.Duration(float64(sz) * float64(c.Sessions*c.Streams) / (3 * float64(c.Rate)) * float64(time.Second)))
								}
								if _, err := conn.Write(make([]byte, sz)); err != nil {
									// the session died under this writer (in plain mode undecodable bytes can
									// close a session); the tokens it had reserved for this record are gone
									mu.Lock()
									txFailed++
									mu.Unlock()
									return
								}
								left -= sz
							}
							if c.Storm {
								conn.Close() // the closing notice waits for tokens like any other message
							}
							mu.Lock()
							txSpans = append(txSpans, [2]time.Duration{t0, time.Since(start)})
							mu.Unlock()
						}()
					}
				}
			}()
			if c.Flood != "" && s == 0 {
				o := vk.PipeOpts{NoCut: true}
				o.Seg[0], o.Seg[1] = g.segFor(0), g.segFor(1)
				g.mu.Lock()
				fp := g.net.NewPipe(o)
				g.pipes = append(g.pipes, fp)
				g.mu.Unlock()
				g.srv.AddConnection(common.NewTLSConn(fp.B))
				go io.Copy(io.Discard, fp.A)
				var deadID uint32
				if c.Flood == "closed-stream" {
					st, err := g.cli.OpenStream()
					if err != nil {
						kind, detail = "harness", err.Error()
						return
					}
					st.Write([]byte("soon closed"))
					time.Sleep(time.Second)
					st.Close()
					time.Sleep(time.Second)
					deadID = st.id
				}
				wg.Add(1)
				go func() {
					defer wg.Done()
					lr := rand.New(rand.NewPCG(nextSeed(), 5))
					left := c.Volume
					seq := uint64(1000)
					for left > 0 {
						sz := c.Sizes[lr.IntN(len(c.Sizes))]
						left -= sz
						var body []byte
						if c.Flood == "closed-stream" {
							var tr [8]byte
							body, _ = g.ref.Encode(vk.RefFrame{StreamID: deadID, Seq: seq, Payload: make([]byte, sz)}, nil, tr)
							seq++
						} else {
							body = make([]byte, sz+14)
							for i := range body {
								body[i] = byte(lr.Uint32())
							}
						}
						rec := append([]byte{0x17, 3, 3, byte(len(body) >> 8), byte(len(body))}, body...)
						if _, err := fp.A.Write(rec); err != nil {
							return
						}
					}
				}()
			}
			for k := 0; k < c.Streams; k++ {
				st, err := g.cli.OpenStream()
				if err != nil {
					kind, detail = "harness", err.Error()
					return
				}
				go io.Copy(io.Discard, st)
				wg.Add(1)
				go func() {
					defer wg.Done()
					lr := rand.New(rand.NewPCG(nextSeed(), 4))
					st.Write([]byte("open")) // make the stream known to the server
					if c.Dir == "rx" || c.Dir == "both" {
						left := c.Volume
						for left > 0 {
							sz := c.Sizes[lr.IntN(len(c.Sizes))]
							if sz > left {
								sz = left
							}
							if _, err := st.Write(make([]byte, sz)); err != nil {
								return
							}
							left -= sz
						}
					}
				}()
			}
		}
		synctest_Wait()
		time.Sleep(24 * time.Hour) // virtual: let every throttled sender/receiver finish
		synctest_Wait()
		// ---- collect events ----
		var tx, rx []c19Ev
		for _, g := range rigs {
			for _, pp := range g.pipes {
				_, marks := pp.Wire(1) // server -> client
				for _, m := range marks {
					n := int64(m.N - 5)
					tx = append(tx, c19Ev{m.T.Sub(start), n})
					if n > maxMsg {
						maxMsg = n
					}
				}
				_, marksUp := pp.Wire(0) // client -> server: acceptance = reader comes back after the record
				calls := pp.ReadCalls(0)
				ci := 0
				for _, m := range marksUp {
					end := m.Off + int64(m.N)
					for ci < len(calls) && calls[ci].Off < end {
						ci++
					}
					if ci < len(calls) && calls[ci].Off == end {
						n := int64(m.N - 5)
						rx = append(rx, c19Ev{calls[ci].T.Sub(start), n})
						if n > maxMsg {
							maxMsg = n
						}
					}
				}
			}
		}
		r.Count("tx_records", int64(len(tx)))
		r.Count("rx_records", int64(len(rx)))
		rate := float64(c.Rate)
		judge := func(name string, evs []c19Ev) {
			if len(evs) == 0 {
				return
			}
			ex, at, span := c19Bound(evs, rate, rate)
			if ex > 0 {
				// literal excess; does it disappear when one whole message is allowed as burst?
				ex2, _, _ := c19Bound(evs, rate, max(rate, float64(maxMsg)))
				if ex2 <= 0 && float64(maxMsg) > rate {
					if kind == "" {
						kind, detail, known = "rate-below-message-size", fmt.Sprintf("%s: a message of up to %d bytes leaves in one piece although one second's worth at %d B/s is only %d bytes (excess %.0f bytes over the all-intervals bound)", name, maxMsg, c.Rate, c.Rate, ex), true
					}
					return
				}
				kind, detail, known = name+"-rate-exceeded", fmt.Sprintf("%s: within an interval of %v ending at t=%v the server moved %.0f bytes more than (rate x t + one second's worth) x 1.01 (rate %d B/s, %d records)", name, span, at.t, ex, c.Rate, len(evs)), false
				return
			}
			var total int64
			for _, e := range evs {
				total += e.n
			}
			if name == "rx" && !c.IdleGap && c.Flood != "closed-stream" { // (that scenario starts with two idle seconds)
				// the unlimited client has put everything on the wire at once: backlogged from the first
				// to the last grant, so the receiver must not be held below the rate
				T := (evs[len(evs)-1].t - evs[0].t).Seconds()
				if float64(total) < rate*T*0.99-float64(maxMsg) {
					kind, detail = name+"-held-below-rate", fmt.Sprintf("%s: a backlogged sender moved only %d bytes in %.2f virtual seconds at a configured rate of %d B/s", name, total, T, c.Rate)
				}
			}
			if name == "tx" && !c.Unordered { // (paced datagram sources are not backlogged: no lower bound there)
				// server-side writers start when their stream is accepted (which itself waits for upload
				// tokens), so tx is known to be backlogged only while some writer is inside its loop:
				// every maximal interval covered by writer spans must move at least rate x length x 0.99
				mu.Lock()
				spans := append([][2]time.Duration{}, txSpans...)
				mu.Unlock()
				sort.Slice(spans, func(a, b int) bool { return spans[a][0] < spans[b][0] })
				for i := 0; i < len(spans); {
					S, E := spans[i][0], spans[i][1]
					j := i + 1
					for j < len(spans) && spans[j][0] <= E {
						if spans[j][1] > E {
							E = spans[j][1]
						}
						j++
					}
					i = j
					var moved int64
					for _, e := range evs {
						if e.t >= S && e.t <= E {
							moved += e.n
						}
					}
					mu.Lock()
					lostReservations := float64(txFailed) * float64(maxMsg)
					mu.Unlock()
					if T := (E - S).Seconds(); float64(moved) < rate*T*0.99-float64(maxMsg)-lostReservations {
						kind, detail = name+"-held-below-rate", fmt.Sprintf("%s: writers were continuously backlogged from t=%v to t=%v, yet only %d bytes left in those %.2f virtual seconds at a configured rate of %d B/s", name, S, E, moved, T, c.Rate)
					}
				}
			}
			r.Max("virtual_seconds_"+name, int64((evs[len(evs)-1].t).Seconds()))
		}
		judge("tx", tx)
		if kind == "" || known {
			judge("rx", rx)
		}
		// the whole volume must have gone through (the limiter delays, it does not drop)
		for _, g := range rigs {
			g.closeAll()
		}
		synctest_Wait()
	})
	if p != nil && kind == "" && !isBubbleLeftover(rigPanicStr(p)) {
		kind, detail = "panic", rigPanicStr(p)
	}
	return
}

func TestVerif_C19(t *testing.T) {
	r := vk.Open()
	defer r.Close()
	methods := []byte{EncryptionMethodPlain, EncryptionMethodAES256GCM, EncryptionMethodChaha20Poly1305, EncryptionMethodAES128GCM}
	rates := []int64{20000, 65536, 1000000, 100000000, 300000}
	sizeSets := [][]int{{1}, {100}, {rigMax}, {5 * rigMax}, {1, 100, rigMax, 5 * rigMax}, {1400, 4096}}
	n := r.Pick(72, 3000)
	for i := 0; i < n; i++ {
		id := fmt.Sprintf("rate-%d", i)
		rng := r.Rand("c19", i)
		c := &c19Case{Rate: rates[i%len(rates)], Sessions: 1 + rng.IntN(3), Conns: 1 + rng.IntN(4), Streams: 1 + rng.IntN(8), Sizes: sizeSets[rng.IntN(len(sizeSets))],
			IdleGap: rng.IntN(4) == 0, Dir: []string{"tx", "rx", "both"}[rng.IntN(3)], Method: methods[rng.IntN(4)]}
		// about 30 virtual seconds of traffic past the initial burst, capped for run time
		total := c.Rate * 31
		if total > 3<<20 {
			total = 3 << 20
		}
		c.Volume = int(total) / (c.Sessions * c.Streams)
		avg := 0
		for _, s := range c.Sizes {
			avg += s
		}
		avg /= len(c.Sizes)
		// keep the number of records per case around 400 (quick) / 2000 (thorough)
		c.Volume = min(c.Volume, r.Pick(400, 2000)*avg/(c.Sessions*c.Streams)+1)
		if i%6 == 4 && c.Dir != "tx" {
			c.Flood = []string{"garbage", "closed-stream"}[(i/6)%2]
			if c.Flood == "garbage" && c.Method == EncryptionMethodPlain {
				// without authentication arbitrary bytes ARE frames (of random streams, with random
				// flags): "records the session drops" exist only under an AEAD method
				c.Method = methods[1+i%3]
			}
			if c.Sizes[len(c.Sizes)-1] > rigMax {
				c.Sizes = []int{1400, 4096}
			}
		}
		if i%12 == 5 {
			// a rate below one receive buffer with messages far smaller than one second's worth
			c.Rate = []int64{6000, 9000, 12000}[(i/12)%3]
			c.Sizes = [][]int{{100}, {1, 100}, {500}}[(i/12)%3]
			c.Volume = int(c.Rate) * 12 / (c.Sessions * c.Streams)
		}
		if i%12 == 2 {
			// close storm: 100-250 short-lived streams of a slow user, each closed by the server
			c.Storm, c.Dir, c.IdleGap, c.Flood = true, "tx", false, ""
			c.Rate = []int64{6000, 20000, 65536}[(i/12)%3]
			c.Sessions, c.Streams = 1+(i/12)%2, 100+rng.IntN(150)
			c.Sizes, c.Volume = []int{1, 100}, 40
		}
		if i%12 == 8 && c.Flood == "" {
			// datagram sessions of a slow user; the senders offer about three times the rate, paced in
			// (virtual) time, for about eight seconds
			c.Unordered = true
			c.Rate = []int64{20000, 65536, 9000}[(i/12)%3]
			c.Sizes = [][]int{{100}, {1400}, {500, 1400}, {1000}}[(i/12)%4]
			c.Volume = int(c.Rate) * 8 / (c.Sessions * c.Streams)
			c.IdleGap = false
		}
		if i%12 == 11 {
			c.Rate = 4000 // below the size of one message: the documented literal excess (known finding)
			c.Sizes = []int{rigMax}
			c.Volume = 3 * rigMax
			c.Sessions, c.Streams = 1, 1
		}
		if !r.Mine(id) {
			continue
		}
		r.Case(id, c)
		k, d, _ := c19Run(t, r, id, c)
		r.Distinct("cases", vk.Hash64(*c))
		if i < 3 {
			r.Sample(c)
		}
		if k != "" {
			r.Violation(id, "C19:"+k, fmt.Sprintf("%s; case %+v", d, *c), c)
		} else {
			r.Pass(id)
		}
	}
}
