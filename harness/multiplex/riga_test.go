package multiplex

// Rig A: two mux.Sessions wired through the hostile network (verifkit/hnet) with N TLSConn
// connections. Everything runs inside a synctest bubble: time is virtual and "nobody can make
// progress" is decidable with synctest.Wait().

import (
	"encoding/binary"
	"fmt"
	"math/rand/v2"
	"sync"
	"testing"
	"testing/synctest"
	"time"

	"github.com/cbeuw/Cloak/internal/common"
	vk "github.com/cbeuw/Cloak/internal/verifkit"
)

const rigLimit = 16401
const rigMax = rigLimit - 14 - 255

type rigCfg struct {
	Method     byte          `json:"method"`
	NumConn    int           `json:"num_conn"` // 0 = singleplex (one connection, one stream)
	Unordered  bool          `json:"unordered,omitempty"`
	Router     bool          `json:"router"`
	Policy     string        `json:"policy,omitempty"`
	Seg        string        `json:"seg"`
	Window     int           `json:"window,omitempty"`
	Jitter     int           `json:"jitter,omitempty"`
	AddLater   bool          `json:"add_later,omitempty"`
	Procs      int           `json:"gomaxprocs,omitempty"`
	Inactivity time.Duration `json:"-"`
	SrvValve   Valve         `json:"-"`
	CliValve   Valve         `json:"-"`
}

type rigA struct {
	cfg      rigCfg
	net      *vk.Net
	cli, srv *Session
	key      [32]byte
	ref      *vk.RefCodec
	rng      *rand.Rand
	mu       sync.Mutex
	pipes    []*vk.Pipe
	// arrival statistics (router mode)
	hiSeq        map[[2]uint32]uint64 // (dir, stream) -> highest seq released so far (+1)
	ooo          int
	maxDist      uint64
	arrivals     []uint32
	released     int
	beforeCliAdd func()
	// onRelease may consume the picked item itself (fault injection); it returns true when it did
	onRelease func(*vk.Item) bool
}

func (g *rigA) segFor(dir int) vk.SegFunc {
	r := rand.New(rand.NewPCG(g.rng.Uint64(), uint64(dir)))
	switch g.cfg.Seg {
	case "one":
		return vk.SegOne()
	case "random":
		return vk.SegRandom(r)
	case "small":
		return vk.SegSmall(r)
	default:
		return vk.SegAll()
	}
}

func newRigA(cfg rigCfg, rng *rand.Rand) *rigA {
	g := &rigA{cfg: cfg, rng: rng, net: vk.NewNet(), hiSeq: map[[2]uint32]uint64{}}
	for i := range g.key {
		g.key[i] = byte(rng.Uint32())
	}
	obfC, err := MakeObfuscator(cfg.Method, g.key)
	if err != nil {
		panic(err)
	}
	obfS, _ := MakeObfuscator(cfg.Method, g.key)
	g.ref, _ = vk.NewRefCodec(cfg.Method, g.key)
	g.cli = MakeSession(7, SessionConfig{Obfuscator: obfC, Valve: cfg.CliValve, Unordered: cfg.Unordered, Singleplex: cfg.NumConn == 0, MsgOnWireSizeLimit: rigLimit, InactivityTimeout: cfg.Inactivity})
	g.srv = MakeSession(7, SessionConfig{Obfuscator: obfS, Valve: cfg.SrvValve, Unordered: cfg.Unordered, MsgOnWireSizeLimit: rigLimit, InactivityTimeout: cfg.Inactivity})
	return g
}

func (g *rigA) nconn() int {
	if g.cfg.NumConn == 0 {
		return 1
	}
	return g.cfg.NumConn
}

// addConn creates one more underlying connection and hands its ends to both sessions.
func (g *rigA) addConn() *vk.Pipe {
	g.mu.Lock()
	o := vk.PipeOpts{Router: g.cfg.Router, Window: g.cfg.Window, Jitter: g.cfg.Jitter, NoCut: true}
	o.Seg[0], o.Seg[1] = g.segFor(0), g.segFor(1)
	p := g.net.NewPipe(o)
	g.pipes = append(g.pipes, p)
	g.mu.Unlock()
	g.srv.AddConnection(common.NewTLSConn(p.B))
	if g.beforeCliAdd != nil {
		g.beforeCliAdd()
	}
	g.cli.AddConnection(common.NewTLSConn(p.A))
	return p
}

// note records one released record for the reordering statistics.
func (g *rigA) note(it *vk.Item) {
	g.released++
	if len(it.Data) < 5 {
		return
	}
	f, err := g.ref.Decode(it.Data[5:])
	if err != nil {
		return
	}
	k := [2]uint32{uint32(it.Dir), f.StreamID}
	hi := g.hiSeq[k]
	if f.Seq+1 > hi {
		g.hiSeq[k] = f.Seq + 1
	} else {
		g.ooo++
		if d := hi - 1 - f.Seq; d > g.maxDist {
			g.maxDist = d
		}
	}
	g.arrivals = append(g.arrivals, uint32(it.Pipe)<<1|uint32(it.Dir), f.StreamID, uint32(f.Seq))
}

// pump delivers held records one at a time in an order chosen by policy until nothing is in
// flight and every goroutine is durably blocked. It returns the number of releases.
func (g *rigA) pump(policy string) {
	starve := -1
	if policy == "starve" {
		starve = g.rng.IntN(g.nconn())
	}
	for {
		synctest.Wait()
		heads := g.net.Heads()
		if len(heads) == 0 {
			return
		}
		var pick *vk.Item
		switch policy {
		case "fifo":
			for _, h := range heads {
				if pick == nil || h.Seq < pick.Seq {
					pick = h
				}
			}
		case "lifo":
			for _, h := range heads {
				if pick == nil || h.Seq > pick.Seq {
					pick = h
				}
			}
		case "newest-conn":
			for _, h := range heads {
				if pick == nil || h.Pipe > pick.Pipe {
					pick = h
				}
			}
		case "starve":
			var cand []*vk.Item
			for _, h := range heads {
				if h.Pipe != starve {
					cand = append(cand, h)
				}
			}
			if len(cand) == 0 {
				cand = heads
			}
			pick = cand[g.rng.IntN(len(cand))]
		case "close-first", "close-last":
			var closing, other []*vk.Item
			for _, h := range heads {
				if f, err := g.ref.Decode(h.Data[5:]); err == nil && f.Closing != 0 {
					closing = append(closing, h)
				} else {
					other = append(other, h)
				}
			}
			cand := closing
			if (policy == "close-last" && len(other) > 0) || len(closing) == 0 {
				cand = other
			}
			pick = cand[g.rng.IntN(len(cand))]
		default: // random merge
			pick = heads[g.rng.IntN(len(heads))]
		}
		if g.onRelease != nil && g.onRelease(pick) {
			continue
		}
		g.note(pick)
		g.net.Release(pick)
	}
}

func (g *rigA) settle() {
	if g.cfg.Router {
		g.pump(g.cfg.Policy)
	} else {
		synctest.Wait()
	}
}

func (g *rigA) closeAll() {
	g.cli.Close()
	g.srv.Close()
	for _, p := range g.pipes {
		p.SetRouter(false)
		p.A.Close()
		p.B.Close()
	}
}

// ---- tagged stream content: header = tag(8) | total(8), then generator bytes -----------------

func rigFill(tag uint64, total int64, off int64, buf []byte) {
	for i := range buf {
		o := off + int64(i)
		switch {
		case o < 8:
			buf[i] = byte(tag >> (56 - 8*uint(o)))
		case o < 16:
			buf[i] = byte(uint64(total) >> (56 - 8*uint(o-8)))
		default:
			buf[i] = vk.GenByte(tag, o)
		}
	}
}

func rigHeader(b []byte) (tag uint64, total int64) {
	return binary.BigEndian.Uint64(b[0:8]), int64(binary.BigEndian.Uint64(b[8:16]))
}

// inBubble runs f inside a synctest bubble and swallows the "goroutines remain" panic that a
// failed case may leave behind (results are recorded before the bubble ends).
func inBubble(t *testing.T, f func()) (panicked any) {
	p, leftover := vk.InBubble(t, f) // includes the stuck-bubble watchdog
	if leftover {
		return nil
	}
	return p
}

var rigMethodNames = map[byte]string{EncryptionMethodPlain: "plain", EncryptionMethodAES256GCM: "aes-256-gcm", EncryptionMethodChaha20Poly1305: "chacha20-poly1305", EncryptionMethodAES128GCM: "aes-128-gcm"}

func rigPanicStr(p any) string { return fmt.Sprint(p) }

func synctest_Wait() { synctest.Wait() }

func synctestSettle(g *rigA) { g.settle() }

// isBubbleLeftover recognises the panic synctest raises when goroutines of the code under test
// are still parked at the end of a bubble (not a property violation by itself).
func isBubbleLeftover(s string) bool {
	return len(s) >= 8 && (contains(s, "blocked goroutines remain") || contains(s, "deadlock: main bubble goroutine"))
}

func contains(s, sub string) bool {
	for i := 0; i+len(sub) <= len(s); i++ {
		if s[i:i+len(sub)] == sub {
			return true
		}
	}
	return false
}
