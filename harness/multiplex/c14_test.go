package multiplex

// C14 - datagram (unordered) mode preserves message boundaries and stream isolation.
// Rig A with Unordered sessions: tagged datagrams, arbitrary cross-connection arrival orders
// (router), multiset comparison per stream at quiescence, refusal of oversize datagrams checked
// on the wire, short-buffer reads.

import (
	"fmt"
	"io"
	"sync"
	"testing"
	"time"

	vk "github.com/cbeuw/Cloak/internal/verifkit"
)

type c14Stream struct {
	W     uint32 `json:"writer"`
	Up    []int  `json:"up_sizes"`
	Down  []int  `json:"down_sizes"`
	mu    sync.Mutex
	upGot map[string]int
	dnGot map[string]int
	errs  []string
}

type c14Case struct {
	Cfg     rigCfg       `json:"cfg"`
	Streams []*c14Stream `json:"streams"`
}

func c14Expect(w uint32, sizes []int) map[string]int {
	m := map[string]int{}
	for i, sz := range sizes {
		m[string(vk.Datagram(w, uint32(i), sz))]++
	}
	return m
}

func (s *c14Stream) fail(f string, a ...any) {
	s.mu.Lock()
	if len(s.errs) < 3 {
		s.errs = append(s.errs, fmt.Sprintf(f, a...))
	}
	s.mu.Unlock()
}

// recvDatagrams reads whole messages until an error; each must be one of the expected datagrams,
// at most as often as it was sent.
func recvDatagrams(rd io.Reader, want map[string]int, got map[string]int, mu *sync.Mutex, fail func(string, ...any), first []byte) {
	buf := make([]byte, rigMax+64)
	handle := func(msg []byte) bool {
		k := string(msg)
		mu.Lock()
		unknown := want[k] == 0
		dup := false
		if !unknown {
			got[k]++
			dup = got[k] > want[k]
		}
		g, w := got[k], want[k]
		mu.Unlock()
		// fail takes the same mutex: call it only after unlocking
		if unknown {
			wr, c, ok := vk.ParseDatagram(msg)
			fail("received a %d-byte message that is not a datagram written on this stream (parses as writer %d counter %d valid=%v): merged, split, corrupted or foreign data", len(msg), wr, c, ok)
			return false
		}
		if dup {
			wr, c, _ := vk.ParseDatagram(msg)
			fail("datagram (writer %d counter %d, %d bytes) delivered %d times but written %d time(s)", wr, c, len(msg), g, w)
			return false
		}
		return true
	}
	if first != nil && !handle(first) {
		return
	}
	for {
		n, err := rd.Read(buf)
		if err != nil {
			return
		}
		if !handle(buf[:n]) {
			return
		}
	}
}

func c14Run(t *testing.T, r *vk.Reporter, id string, c *c14Case) (kind, detail string) {
	rng := r.Rand("c14run", id)
	p := inBubble(t, func() {
		cfg := c.Cfg
		cfg.Unordered = true
		cfg.Inactivity = 100 * time.Hour
		g := newRigA(cfg, rng)
		for i := 0; i < g.nconn(); i++ {
			g.addConn()
		}
		byW := map[uint32]*c14Stream{}
		for _, s := range c.Streams {
			s.upGot, s.dnGot = map[string]int{}, map[string]int{}
			byW[s.W] = s
		}
		var vmu sync.Mutex
		setV := func(k, d string) {
			vmu.Lock()
			if kind == "" {
				kind, detail = k, d
			}
			vmu.Unlock()
		}
		go func() {
			for {
				conn, err := g.srv.Accept()
				if err != nil {
					return
				}
				go func() {
					buf := make([]byte, rigMax+64)
					n, err := conn.Read(buf)
					if err != nil {
						return
					}
					w, _, ok := vk.ParseDatagram(buf[:n])
					s := byW[w]
					if !ok || s == nil {
						setV("foreign-datagram", fmt.Sprintf("first message on an accepted stream (%d bytes) is not a datagram any sender wrote", n))
						return
					}
					go func() {
						for i, sz := range s.Down {
							if _, err := conn.Write(vk.Datagram(s.W|0x8000, uint32(i), sz)); err != nil {
								s.fail("downstream Write of %d bytes failed: %v", sz, err)
								return
							}
						}
					}()
					recvDatagrams(conn, c14Expect(s.W, s.Up), s.upGot, &s.mu, s.fail, append([]byte{}, buf[:n]...))
				}()
			}
		}()
		var cliStreams []*Stream
		for _, s := range c.Streams {
			s := s
			st, err := g.cli.OpenStream()
			if err != nil {
				setV("open-failed", err.Error())
				return
			}
			cliStreams = append(cliStreams, st)
			go func() {
				for i, sz := range s.Up {
					if _, err := st.Write(vk.Datagram(s.W, uint32(i), sz)); err != nil {
						s.fail("upstream Write of %d bytes failed: %v", sz, err)
						return
					}
				}
			}()
			go recvDatagrams(st, c14Expect(s.W|0x8000, s.Down), s.dnGot, &s.mu, s.fail, nil)
		}
		g.settle()
		if g.cli.IsClosed() || g.srv.IsClosed() {
			setV("session-died", "session closed during a fault-free datagram exchange")
		}
		for _, s := range c.Streams {
			s.mu.Lock()
			if len(s.errs) > 0 {
				setV("bad-datagram", s.errs[0])
			}
			for dir, pair := range map[string][2]map[string]int{"upstream": {c14Expect(s.W, s.Up), s.upGot}, "downstream": {c14Expect(s.W|0x8000, s.Down), s.dnGot}} {
				for k, n := range pair[0] {
					if pair[1][k] != n {
						w, cn, _ := vk.ParseDatagram([]byte(k))
						setV("lost-datagram", fmt.Sprintf("at quiescence on a healthy open stream a %s datagram (writer %d counter %d, %d bytes) was delivered %d times, written %d time(s)", dir, w, cn, len(k), pair[1][k], n))
					}
					r.Count("datagrams_checked", int64(n))
				}
			}
			s.mu.Unlock()
		}
		// the opener now closes its streams: the acceptor-side readers (which read until they get an
		// error, as relay loops do) must end without receiving anything that was not written
		if kind == "" {
			for _, st := range cliStreams {
				st.Close()
			}
			g.settle()
			for _, s := range c.Streams {
				s.mu.Lock()
				if len(s.errs) > 0 {
					setV("bad-datagram-at-close", "after the peer closed the stream: "+s.errs[0])
				}
				s.mu.Unlock()
			}
		}
		r.Distinct("arrival_orders", vk.Hash64(g.arrivals))
		r.Count("out_of_order_arrivals", int64(g.ooo))
		g.closeAll()
		synctest_Wait()
	})
	if p != nil && kind == "" && !isBubbleLeftover(rigPanicStr(p)) {
		kind, detail = "panic", rigPanicStr(p)
	}
	return
}

// c14Single: one stream, every size in a list, oversize refusal and short-buffer reads.
func c14Single(t *testing.T, r *vk.Reporter, id string, cfg rigCfg, sizes []int) (kind, detail string) {
	rng := r.Rand("c14single", id)
	_ = rng
	p := inBubble(t, func() {
		cfg.Unordered = true
		cfg.Inactivity = 100 * time.Hour
		g := newRigA(cfg, rng)
		for i := 0; i < g.nconn(); i++ {
			g.addConn()
		}
		st, err := g.cli.OpenStream()
		if err != nil {
			kind, detail = "open-failed", err.Error()
			return
		}
		var ac *Stream
		go func() {
			c, err := g.srv.Accept()
			if err == nil {
				ac = c.(*Stream)
			}
		}()
		wireBytes := func() (n int64) {
			for _, pp := range g.pipes {
				n += pp.Written(0)
			}
			return
		}
		for i, sz := range sizes {
			msg := vk.Datagram(77, uint32(i), sz)
			before := wireBytes()
			n, err := st.Write(msg)
			if sz > rigMax {
				g.settle()
				if err == nil {
					kind, detail = "oversize-accepted", fmt.Sprintf("Write of a %d-byte datagram (max %d) returned (%d, nil)", sz, rigMax, n)
					return
				}
				if wireBytes() != before {
					kind, detail = "oversize-emitted", fmt.Sprintf("a refused %d-byte datagram still put %d bytes on the wire", sz, wireBytes()-before)
					return
				}
				r.Count("oversize_refusals", 1)
				continue
			}
			if err != nil || n != sz {
				kind, detail = "write-failed", fmt.Sprintf("Write of a %d-byte datagram returned (%d, %v)", sz, n, err)
				return
			}
			g.settle()
			if ac == nil {
				kind, detail = "not-accepted", "stream not accepted after the first datagram was delivered"
				return
			}
			// short buffers must report an error and leave the datagram intact
			for _, short := range []int{sz - 1, 1, sz / 2} {
				if short < 1 || short >= sz {
					continue
				}
				sb := make([]byte, short)
				ac.SetReadDeadline(time.Now().Add(time.Hour))
				n, err := ac.Read(sb)
				if err == nil || n != 0 {
					kind, detail = "short-read-returned-data", fmt.Sprintf("Read with a %d-byte buffer on a %d-byte datagram returned (%d, %v)", short, sz, n, err)
					return
				}
				r.Count("short_buffer_reads", 1)
			}
			big := make([]byte, sz+rng.IntN(3))
			ac.SetReadDeadline(time.Now().Add(time.Hour))
			n, err = ac.Read(big)
			if err != nil || string(big[:n]) != string(msg) {
				kind, detail = "datagram-damaged", fmt.Sprintf("after short-buffer attempts the %d-byte datagram was not returned whole (n=%d err=%v)", sz, n, err)
				return
			}
			r.Count("datagrams_checked", 1)
		}
		// a closed stream stays closed: after the peer closed stream 1 and a new stream carries a
		// datagram, a late Read on the old stream must fail and the new stream must get its datagram
		if ac != nil {
			st.Close()
			g.settle()
			var ac2 *Stream
			go func() {
				c, err := g.srv.Accept()
				if err == nil {
					ac2 = c.(*Stream)
				}
			}()
			st2, err := g.cli.OpenStream()
			if err == nil {
				d := vk.Datagram(78, 1, 333)
				st2.Write(d)
				g.settle()
				ac.SetReadDeadline(time.Now().Add(time.Hour))
				late := make([]byte, 1000)
				if n, err := ac.Read(late); err == nil {
					kind, detail = "closed-stream-delivers", fmt.Sprintf("a Read on a stream the peer had closed returned %d bytes after a later stream received a datagram: data of another stream", n)
					return
				}
				if ac2 == nil {
					kind, detail = "not-accepted", "the second stream was not accepted"
					return
				}
				ac2.SetReadDeadline(time.Now().Add(time.Hour))
				n, err := ac2.Read(late)
				if err != nil || string(late[:n]) != string(d) {
					kind, detail = "lost-datagram", fmt.Sprintf("the datagram written on the new stream was not delivered to it (n=%d err=%v)", n, err)
					return
				}
				r.Count("read_after_close_checks", 1)
			}
		}
		g.closeAll()
		synctest_Wait()
	})
	if p != nil && kind == "" && !isBubbleLeftover(rigPanicStr(p)) {
		kind, detail = "panic", rigPanicStr(p)
	}
	return
}

func TestVerif_C14(t *testing.T) {
	r := vk.Open()
	defer r.Close()
	methods := []byte{EncryptionMethodPlain, EncryptionMethodAES256GCM, EncryptionMethodChaha20Poly1305, EncryptionMethodAES128GCM}
	bsz := []int{20, 21, 64, 1200, 1500, 8191, 8192, 8193, rigMax - 1, rigMax}
	n := r.Pick(160, 3000)
	for i := 0; i < n; i++ {
		id := fmt.Sprintf("multi-%d", i)
		rng := r.Rand("c14", i)
		c := &c14Case{Cfg: rigCfg{Method: methods[i%4], NumConn: 1 + (i/4)%8, Router: rng.IntN(4) != 0, Policy: []string{"random", "lifo", "starve", "newest-conn"}[rng.IntN(4)], Seg: []string{"all", "random", "small"}[rng.IntN(3)]}}
		if !c.Cfg.Router {
			c.Cfg.Jitter = 2
			c.Cfg.Procs = []int{1, 4, 16}[rng.IntN(3)]
		}
		ns := 1 + rng.IntN(8)
		for k := 0; k < ns; k++ {
			s := &c14Stream{W: uint32(100 + k)}
			mk := func() []int {
				var l []int
				for j := 0; j < 1+rng.IntN(12); j++ {
					if rng.IntN(2) == 0 {
						l = append(l, bsz[rng.IntN(len(bsz))])
					} else {
						l = append(l, 20+rng.IntN(3000))
					}
				}
				return l
			}
			s.Up = mk()
			if rng.IntN(3) != 0 {
				s.Down = mk()
			}
			c.Streams = append(c.Streams, s)
		}
		if !r.Mine(id) {
			continue
		}
		r.Case(id, c)
		k, d := c14Run(t, r, id, c)
		r.Distinct("cases", vk.Hash64(c.Cfg, ns, c.Streams[0].Up, c.Streams[0].Down))
		if i < 3 {
			r.Sample(c)
		}
		if k != "" {
			r.Violation(id, "C14:"+k, fmt.Sprintf("%s; cfg %+v", d, c.Cfg), c)
		} else {
			r.Pass(id)
		}
	}
	for i := 0; i < r.Pick(16, 64); i++ {
		id := fmt.Sprintf("single-%d", i)
		if !r.Mine(id) {
			continue
		}
		rng := r.Rand("c14s", i)
		var sizes []int
		if i%4 == 0 {
			for s := 1; s <= 64; s++ {
				sizes = append(sizes, s)
			}
		}
		sizes = append(sizes, 8191, 8192, 8193, rigMax-1, rigMax, rigMax+1, rigMax+2, 2*rigMax, 40000)
		for k := 0; k < 12; k++ {
			sizes = append(sizes, 1+rng.IntN(rigMax))
		}
		cfg := rigCfg{Method: methods[i%4], NumConn: 1 + i%3, Router: true, Policy: "random", Seg: "all"}
		r.Case(id, map[string]any{"cfg": cfg, "sizes": len(sizes)})
		k, d := c14Single(t, r, id, cfg, sizes)
		r.Distinct("cases", vk.Hash64("single", i))
		if k != "" {
			r.Violation(id, "C14:"+k, d, cfg)
		} else {
			r.Pass(id)
		}
	}
}
