package server

// C09 - unauthenticated peers see only the redirect target, byte for byte.
// Differential oracle against a plain TCP relay: taps on the peer-side connection and on the
// connection the real Serve loop dials to the redirect target, inside a bubble (the 15 s
// first-packet timeout costs nothing). A genuine client handshake + echo after hostile
// connections is the "not wedged" probe; crashes are attributed by the driver to the logged case.

import (
	"bytes"
	"crypto/rand"
	"encoding/binary"
	"fmt"
	"io"
	mrand "math/rand/v2"
	"runtime"
	"sync"
	"testing"
	"time"

	"github.com/cbeuw/Cloak/internal/client"
	"github.com/cbeuw/Cloak/internal/server/usermanager"
	vk "github.com/cbeuw/Cloak/internal/verifkit"
)

type c09Script struct {
	Name   string
	Chunks [][]byte
	Pauses []time.Duration // pause before each chunk
	Class  string          // "all": the target must receive the whole stream; "may-close": a prefix (possibly nothing)
	Reply  string          // immediate, after-request, chunked, silent, early-close, late
}

func (s *c09Script) all() []byte {
	var b []byte
	for _, c := range s.Chunks {
		b = append(b, c...)
	}
	return b
}

type c09Tap struct {
	mu     sync.Mutex
	got    []byte
	closed bool
}

func (t *c09Tap) pump(c io.Reader) {
	buf := make([]byte, 4096)
	for {
		n, err := c.Read(buf)
		t.mu.Lock()
		t.got = append(t.got, buf[:n]...)
		if err != nil {
			t.closed = true
			t.mu.Unlock()
			return
		}
		t.mu.Unlock()
	}
}

func (t *c09Tap) snap() ([]byte, bool) {
	t.mu.Lock()
	defer t.mu.Unlock()
	return append([]byte{}, t.got...), t.closed
}

type c09Env struct {
	g        *srvRig
	targets  chan *vk.Conn
	bypass   []byte
	noCredit []byte
	expired  []byte
}

func newC09Env(t *testing.T, rng *mrand.Rand) *c09Env {
	e := &c09Env{targets: make(chan *vk.Conn, 64), bypass: randUID(rng)}
	e.g = newSrvRig(t, srvOpts{Bypass: [][]byte{e.bypass}, DB: true})
	e.noCredit, e.expired = randUID(rng), randUID(rng)
	now := time.Now().Unix()
	j := usermanager.JustInt64
	e.g.sta.Panel.Manager.WriteUserInfo(usermanager.UserInfo{UID: e.noCredit, SessionsCap: usermanager.JustInt32(3), UpRate: j(1 << 20), DownRate: j(1 << 20), UpCredit: j(0), DownCredit: j(1 << 20), ExpiryTime: j(now + 1e6)})
	e.g.sta.Panel.Manager.WriteUserInfo(usermanager.UserInfo{UID: e.expired, SessionsCap: usermanager.JustInt32(3), UpRate: j(1 << 20), DownRate: j(1 << 20), UpCredit: j(1 << 20), DownCredit: j(1 << 20), ExpiryTime: j(now - 10)})
	e.g.serve()
	go e.g.echoProxy()
	go func() {
		for {
			c, err := e.g.redirL.Accept()
			if err != nil {
				return
			}
			e.targets <- c.(*vk.Conn)
		}
	}()
	return e
}

// round plays one hostile connection and judges it. seg segments the server's reads of the peer.
func (e *c09Env) round(s *c09Script, seg vk.SegFunc, rng *mrand.Rand) (kind, detail string) {
	// drain stale target connections of earlier rounds
	for len(e.targets) > 0 {
		(<-e.targets).Close()
	}
	e.g.lis.OnDial = func(int) vk.PipeOpts {
		o := vk.PipeOpts{NoCut: true}
		o.Seg[0] = seg
		return o
	}
	pc, _, err := e.g.lis.DialPipe()
	e.g.lis.OnDial = nil
	if err != nil {
		return "harness", err.Error()
	}
	S := s.all()
	reply := make([]byte, 700+rng.IntN(3000))
	rand.Read(reply)
	var peerTap, tgtTap c09Tap
	go peerTap.pump(pc)
	var total time.Duration
	go func() {
		for i, ch := range s.Chunks {
			if i < len(s.Pauses) && s.Pauses[i] > 0 {
				time.Sleep(s.Pauses[i])
			}
			if _, err := pc.Write(ch); err != nil {
				return
			}
		}
	}()
	for _, p := range s.Pauses {
		total += p
	}
	var tgt *vk.Conn
	var replied []byte
	var rmu sync.Mutex
	tgtReady := make(chan struct{})
	go func() {
		select {
		case tgt = <-e.targets:
		case <-time.After(total + 60*time.Second):
			close(tgtReady)
			return
		}
		close(tgtReady)
		go tgtTap.pump(tgt)
		send := func(b []byte) {
			if _, err := tgt.Write(b); err == nil {
				rmu.Lock()
				replied = append(replied, b...)
				rmu.Unlock()
			}
		}
		switch s.Reply {
		case "immediate":
			send(reply)
		case "after-request":
			for {
				got, closed := tgtTap.snap()
				if len(got) >= len(S) || closed {
					break
				}
				time.Sleep(100 * time.Millisecond)
			}
			send(reply)
		case "chunked":
			for i := 0; i < len(reply); i += 97 {
				send(reply[i:min(i+97, len(reply))])
				time.Sleep(300 * time.Millisecond)
			}
		case "late":
			send(reply[:100])
			time.Sleep(16 * time.Second) // a second part after the first-packet deadline would have fired
			send(reply[100:])
		case "early-close":
			time.Sleep(time.Second)
			send(reply[:50])
			tgt.Close()
		}
	}()
	vk.Wait()
	time.Sleep(total + 45*time.Second) // virtual
	vk.Wait()
	<-tgtReady

	tg, tclosed := tgtTap.snap()
	pg, pclosed := peerTap.snap()
	rmu.Lock()
	rep := append([]byte{}, replied...)
	rmu.Unlock()
	if !bytes.HasPrefix(S, tg) {
		i := 0
		for i < len(tg) && i < len(S) && tg[i] == S[i] {
			i++
		}
		return "target-bytes-differ", fmt.Sprintf("[%s] the redirect target received %d bytes that are not a prefix of the %d bytes the peer sent (first difference at offset %d)", s.Name, len(tg), len(S), i)
	}
	if !bytes.HasPrefix(rep, pg) {
		return "peer-got-foreign-bytes", fmt.Sprintf("[%s] the peer received %d bytes that are not a prefix of the %d bytes the target replied with: the server emitted bytes of its own or altered the reply (first bytes %x)", s.Name, len(pg), len(rep), pg[:min(len(pg), 16)])
	}
	if s.Class == "all" && s.Reply != "early-close" {
		if tgt == nil {
			return "not-redirected", fmt.Sprintf("[%s] the peer sent a complete first record/request or an unrecognisable first byte (%d bytes in all) but the server never connected to the redirect target (peer connection closed by server: %v)", s.Name, len(S), pclosed)
		}
		if len(tg) != len(S) {
			return "target-missing-bytes", fmt.Sprintf("[%s] at quiescence, 45 virtual seconds after the last byte, the target has received %d of the %d bytes of the peer's stream (target side closed: %v, peer side closed: %v)", s.Name, len(tg), len(S), tclosed, pclosed)
		}
		if len(pg) != len(rep) {
			return "peer-missing-reply", fmt.Sprintf("[%s] at quiescence the peer has received %d of the %d bytes the target replied with (reply script %s; peer side closed: %v)", s.Name, len(pg), len(rep), s.Reply, pclosed)
		}
		if tclosed || pclosed {
			return "relay-cut", fmt.Sprintf("[%s] the relay was cut although neither the peer nor the target closed (target side closed=%v peer side closed=%v)", s.Name, tclosed, pclosed)
		}
	}
	// teardown: closing one end must close the other
	if s.Reply == "early-close" {
		if tgt != nil && !pclosed {
			return "peer-not-closed", fmt.Sprintf("[%s] the target closed its connection but the peer's connection is still open 45 virtual seconds later", s.Name)
		}
	} else {
		pc.Close()
		vk.Wait()
		time.Sleep(time.Second)
		vk.Wait()
		if tgt != nil {
			if _, c := tgtTap.snap(); !c {
				return "target-not-closed", fmt.Sprintf("[%s] the peer closed but the connection to the target is still open", s.Name)
			}
		}
	}
	pc.Close()
	if tgt != nil {
		tgt.Close()
	}
	return "", ""
}

// probe: a genuine client must still be served.
func (e *c09Env) probe(rng *mrand.Rand) string {
	c := cliCfg{UID: e.bypass, Method: "shadowsocks", Enc: "aes-gcm", Transport: "direct", Browser: "firefox", NumConn: 1, SessionID: rng.Uint32() | 1}
	_, remote, auth, err := e.g.clientConfigs(c)
	if err != nil {
		return err.Error()
	}
	done := make(chan string, 1)
	go func() {
		sesh := client.MakeSession(remote, auth, e.g.dialerFor("direct"))
		st, err := sesh.OpenStream()
		if err != nil {
			done <- "OpenStream: " + err.Error()
			return
		}
		msg := vk.Datagram(9, rng.Uint32(), 1024)
		st.Write(msg)
		got := make([]byte, len(msg))
		st.SetReadDeadline(time.Now().Add(time.Minute))
		if _, err := io.ReadFull(st, got); err != nil || !bytes.Equal(got, msg) {
			done <- fmt.Sprintf("echo failed: %v", err)
			return
		}
		sesh.Close()
		done <- ""
	}()
	vk.Wait()
	time.Sleep(30 * time.Second)
	vk.Wait()
	select {
	case s := <-done:
		return s
	default:
		e.g.stopClients()
		return "a genuine client handshake + 1 KiB echo did not complete within 30 virtual seconds"
	}
}

func tlsRecord(declared int, body []byte) []byte {
	b := []byte{0x16, 0x03, 0x01, 0, 0}
	binary.BigEndian.PutUint16(b[3:], uint16(declared))
	return append(b, body...)
}

func rnd(n int) []byte {
	b := make([]byte, n)
	rand.Read(b)
	return b
}

func splitAt(b []byte, cuts ...int) [][]byte {
	var out [][]byte
	prev := 0
	for _, c := range cuts {
		if c > prev && c < len(b) {
			out = append(out, b[prev:c])
			prev = c
		}
	}
	return append(out, b[prev:])
}

// c09Scripts generates the hostile inputs of one block.
func (e *c09Env) scripts(rng *mrand.Rand, blk int, n int) []func() *c09Script {
	var gens []func() *c09Script
	for i := 0; i < n; i++ {
		k := i + blk*n
		gens = append(gens, func() *c09Script { return e.script(rng, k) })
	}
	return gens
}

// script builds the k-th hostile input; genuine packets are created at call time so that their
// timestamps are fresh when they are presented.
func (e *c09Env) script(rng *mrand.Rand, k int) *c09Script {
	var out []*c09Script
	replies := []string{"immediate", "after-request", "chunked", "silent", "late", "early-close"}
	add := func(name string, chunks [][]byte, pauses []time.Duration, class string) {
		out = append(out, &c09Script{Name: name, Chunks: chunks, Pauses: pauses, Class: class, Reply: replies[rng.IntN(len(replies))]})
	}
	genuine := func(c cliCfg) []byte {
		first, _, err := e.g.firstPacket(c)
		if err != nil {
			panic(err)
		}
		return first
	}
	okCfg := cliCfg{UID: e.bypass, Method: "shadowsocks", Enc: "aes-gcm", Transport: "direct", Browser: "firefox", NumConn: 1, SessionID: 3}
	{
		switch k % 23 {
		case 0: // every first byte value with a random tail
			fb := byte(k / 20 % 256)
			if fb == 0x16 || fb == 0x47 {
				fb++
			}
			add(fmt.Sprintf("first-byte-%#x", fb), [][]byte{append([]byte{fb}, rnd(rng.IntN(400))...)}, nil, "all")
		case 1: // random bytes, segmented with pauses
			b := rnd(1 + rng.IntN(5000))
			if b[0] == 0x16 || b[0] == 0x47 {
				b[0] = 0x99
			}
			add("random-bytes", splitAt(b, rng.IntN(len(b)+1), rng.IntN(len(b)+1)+1), []time.Duration{0, time.Duration(rng.IntN(20)) * time.Second, time.Duration(rng.IntN(3)) * time.Second}, "all")
		case 2: // TLS record, body as declared, garbage content
			L := []int{0, 1, 2, 100, 2994, 2995}[rng.IntN(6)]
			add(fmt.Sprintf("tls-record-exact-%d", L), [][]byte{tlsRecord(L, rnd(L)), rnd(rng.IntN(300))}, []time.Duration{0, time.Second}, "all")
		case 3: // declared length beyond the buffer
			L := []int{2996, 5000, 16384, 65535}[rng.IntN(4)]
			body := rnd(rng.IntN(6000))
			add(fmt.Sprintf("tls-record-oversize-%d", L), [][]byte{tlsRecord(L, body)}, nil, "all")
		case 4: // body shorter than declared, then silence: the server may just close
			L := 200 + rng.IntN(2000)
			add("tls-record-short-body", [][]byte{tlsRecord(L, rnd(rng.IntN(L)))}, nil, "may-close")
		case 5: // body longer than declared
			L := rng.IntN(2000)
			add("tls-record-long-body", [][]byte{tlsRecord(L, rnd(L+1+rng.IntN(3000)))}, nil, "all")
		case 6: // a browser-like hello (genuine layout, sealed to another server)
			c := okCfg
			c.Browser = []string{"chrome", "firefox", "safari"}[rng.IntN(3)]
			save := e.g.pub
			rand.Read(e.g.pub[:])
			h := genuine(c)
			e.g.pub = save
			add("browser-hello-"+c.Browser, [][]byte{h, rnd(rng.IntN(2000))}, []time.Duration{0, time.Duration(rng.IntN(18)) * time.Second}, "all")
		case 7: // genuine Cloak hello, mutated
			h := genuine(okCfg)
			h[11+rng.IntN(32)] ^= 1 << uint(rng.IntN(7))
			add("cloak-hello-bit-mutated", splitAt(h, 1+rng.IntN(len(h)-1)), []time.Duration{0, time.Duration(rng.IntN(14)) * time.Second}, "all")
		case 8: // genuine Cloak hello, truncated then silent
			h := genuine(okCfg)
			add("cloak-hello-truncated", [][]byte{h[:1+rng.IntN(len(h)-1)]}, nil, "may-close")
		case 9: // replayed Cloak hello
			h := genuine(okCfg)
			AuthFirstPacket(append([]byte{}, h...), TLS{}, e.g.sta) // first presentation consumes it
			add("cloak-hello-replayed", [][]byte{h, rnd(100)}, []time.Duration{0, 2 * time.Second}, "all")
		case 10: // valid hello, unauthorised UID
			c := okCfg
			c.UID = randUID(rng)
			add("cloak-hello-unauthorised-uid", [][]byte{genuine(c), rnd(rng.IntN(500))}, []time.Duration{0, time.Second}, "all")
		case 11: // valid hello, unknown proxy method
			c := okCfg
			c.Method = "nosuch"
			add("cloak-hello-unknown-method", [][]byte{genuine(c), rnd(rng.IntN(500))}, []time.Duration{0, time.Second}, "all")
		case 12: // HTTP request without hidden header
			req := "GET /" + fmt.Sprint(rng.Uint64()) + " HTTP/1.1\r\nHost: example.com\r\nUser-Agent: x\r\n\r\n"
			add("http-no-hidden", [][]byte{[]byte(req), rnd(rng.IntN(300))}, []time.Duration{0, time.Second}, "all")
		case 13: // bogus / wrong-length hidden header
			hid := []string{"!!!notbase64!!!", "QUJD", "", string(bytes.Repeat([]byte("QUJD"), 40))}[rng.IntN(4)]
			req := "GET / HTTP/1.1\r\nHost: e" + fmt.Sprint(rng.Uint32()) + ".com\r\nHidden: " + hid + "\r\nUpgrade: websocket\r\n\r\n"
			add("http-bogus-hidden", splitAt([]byte(req), rng.IntN(len(req))), []time.Duration{0, time.Duration(rng.IntN(10)) * time.Second}, "all")
		case 14: // over-long header line without newline
			req := append([]byte("GET / HTTP/1.1\r\nX-"+fmt.Sprint(rng.Uint32())+": "), bytes.Repeat([]byte("a"), 3500+rng.IntN(2000))...)
			add("http-overlong-line", [][]byte{req}, nil, "all")
		case 15: // \n-only line ends, never a blank CRLF line, short: the server may time out and close
			req := "GET / HTTP/1.1\nHost: x" + fmt.Sprint(rng.Uint32()) + "\n\n"
			add("http-lf-only", [][]byte{[]byte(req)}, nil, "may-close")
		case 16: // one byte at a time with pauses below the timeout (total under 15 s)
			b := tlsRecord(20, rnd(20))
			var ch [][]byte
			var ps []time.Duration
			for _, x := range b {
				ch = append(ch, []byte{x})
				ps = append(ps, 400*time.Millisecond)
			}
			add("tls-record-bytewise-slow", ch, ps, "all")
		case 17: // first byte, then a pause longer than the timeout
			add("stall-after-first-byte", [][]byte{{0x16}, rnd(50)}, []time.Duration{0, 20 * time.Second}, "may-close")
		case 18: // WebSocket GET of a genuine CDN client with unauthorised UID
			c := okCfg
			c.Transport = "cdn"
			c.UID = randUID(rng)
			add("ws-get-unauthorised-uid", [][]byte{genuine(c), rnd(100)}, []time.Duration{0, time.Second}, "all")
		case 20: // HTTP request immediately followed by more bytes in the same segment (a body, a pipelined request)
			req := "GET /x" + fmt.Sprint(rng.Uint64()) + " HTTP/1.1\r\nHost: example.com\r\nContent-Length: 300\r\n\r\n"
			add("http-request-with-trailing-bytes", [][]byte{append([]byte(req), rnd(300+rng.IntN(1500))...)}, nil, "all")
		case 21, 22: // structurally valid ClientHello whose key_share (or another) extension body is malformed
			c := okCfg
			c.Browser = []string{"chrome", "firefox", "safari"}[rng.IntN(3)]
			save := e.g.pub
			rand.Read(e.g.pub[:]) // sealed to some other server: not a Cloak client of this server
			h := genuine(c)
			e.g.pub = save
			ch, err := vk.ParseClientHello(h[5:])
			if err != nil {
				panic(err)
			}
			bodies := [][]byte{{}, {0}, {0, 0}, {0, 3, 0, 0x17, 0}, {0, 4, 0, 0x17, 0, 0}, {0, 2, 0, 0x1d}, {0, 5, 0, 0x1d, 0, 0x20, 1}, {0xff, 0xff}, {0, 1, 0}, {0, 6, 0, 0x17, 0, 1, 9, 0}, {0, 7, 0, 0x17, 0, 0, 0, 0x1d, 0}, {0, 3, 0, 0x1d, 0}}
			for j := 0; j < 8; j++ {
				bodies = append(bodies, rnd(rng.IntN(12)))
			}
			target := uint16(0x33)
			if k%23 == 22 {
				target = []uint16{0, 43, 10, 13, 0x33}[rng.IntN(5)]
			}
			body := bodies[(k/23)%len(bodies)] // every body is used, block after block
			// position of the malformed extension: where the browser has it, moved to the end of the
			// hello (no following bytes that an over-read could land in), or moved to the front
			pos := []string{"last", "inplace", "first"}[(k/23/len(bodies)+k/23)%3]
			var exts, moved []vk.TLSExt
			for _, e := range ch.Extensions {
				if e.Type == target {
					e.Data = body
					if pos != "inplace" {
						moved = append(moved, e)
						continue
					}
				}
				exts = append(exts, e)
			}
			if pos == "last" {
				exts = append(exts, moved...)
			} else if pos == "first" {
				exts = append(moved, exts...)
			}
			add(fmt.Sprintf("hello-malformed-ext-%#x-%x-%s", target, body, pos), [][]byte{vk.BuildClientHello(ch, exts), rnd(rng.IntN(200))}, []time.Duration{0, time.Second}, "all")
		default: // valid hello of a database user without credit / past expiry, sent in two halves
			c := okCfg
			c.UID = [][]byte{e.noCredit, e.expired}[rng.IntN(2)]
			h := genuine(c)
			add("cloak-hello-exhausted-or-expired-user", [][]byte{h[:len(h)/2], h[len(h)/2:], rnd(2000)}, []time.Duration{0, 3 * time.Second, 0}, "all")
		}
	}
	return out[0]
}

func TestVerif_C09(t *testing.T) {
	r := vk.Open()
	defer r.Close()
	blocks := r.Pick(32, 1500)
	per := 23
	for blk := 0; blk < blocks; blk++ {
		id := fmt.Sprintf("relay-block-%d", blk)
		if !r.Mine(id) {
			continue
		}
		r.Case(id, map[string]any{"connections": per})
		var vkind, vdet string
		p, leftover := vk.InBubble(t, func() {
			rng := r.Rand("c09", blk)
			e := newC09Env(t, rng)
			defer e.g.cleanup()
			scripts := e.scripts(rng, blk, per)
			for i, gen := range scripts {
				s := gen()
				var seg vk.SegFunc
				switch rng.IntN(4) {
				case 0:
					seg = vk.SegOne()
				case 1:
					seg = vk.SegRandom(mrand.New(mrand.NewPCG(rng.Uint64(), 1)))
				case 2:
					seg = vk.SegSmall(mrand.New(mrand.NewPCG(rng.Uint64(), 2)))
				default:
					seg = vk.SegAll()
				}
				r.Count("evaluations", 1)
				r.Count("script_"+s.Class, 1)
				r.Distinct("cases", vk.Hash64(s.Name, s.Reply, len(s.all()), blk, i))
				r.Distinct("input_kinds", s.Name[:min(len(s.Name), 14)]+"/"+s.Reply)
				if blk == 0 && i < 3 {
					r.Sample(map[string]any{"input": s.Name, "bytes": len(s.all()), "chunks": len(s.Chunks), "reply_script": s.Reply, "class": s.Class})
				}
				k, d := e.round(s, seg, rng)
				if k != "" {
					vkind, vdet = k, d
					break
				}
				if i%7 == 6 {
					if w := e.probe(rng); w != "" {
						vkind, vdet = "server-wedged", fmt.Sprintf("after hostile connection %q: %s", s.Name, w)
						break
					}
					r.Count("not_wedged_probes", 1)
				}
			}
		})
		if p != nil && !leftover && vkind == "" {
			vkind, vdet = "panic", fmt.Sprint(p)
		}
		if vkind != "" {
			r.Violation(id, "C09:"+vkind, vdet, nil)
		} else {
			r.Pass(id)
		}
	}
	// RedirAddr without a port and several listening ports (ck-server's default is 443 and 80): every
	// unauthenticated peer is relayed to the redirect host on the port IT connected to
	for i := 0; i < r.Pick(4, 40); i++ {
		id := fmt.Sprintf("redirect-port-%d", i)
		if !r.Mine(id) {
			continue
		}
		r.Case(id, nil)
		var vkind, vdet string
		p, leftover := vk.InBubble(t, func() {
			rng := r.Rand("c09p", i)
			g := newSrvRig(t, srvOpts{RedirNoPort: true})
			defer g.cleanup()
			ports := []string{"443", "80", "8443"}
			lis := map[string]*vk.Listener{"443": g.lis}
			for _, pt := range ports[1:] {
				lis[pt] = g.net.Listen("10.9.9.9:" + pt)
				go Serve(lis[pt], g.sta)
			}
			g.serve()
			go func() { // the redirect target swallows everything
				for {
					c, err := g.redirL.Accept()
					if err != nil {
						return
					}
					go io.Copy(io.Discard, c)
				}
			}()
			for k := 0; k < 9 && vkind == ""; k++ {
				pt := ports[(k+rng.IntN(2)+i)%3]
				c, err := lis[pt].Dial("tcp", "")
				if err != nil {
					vkind, vdet = "harness", err.Error()
					return
				}
				junk := []byte(fmt.Sprintf("GET /%d HTTP/1.1\r\nHost: example.com\r\n\r\n", k))
				if k%2 == 1 {
					junk = make([]byte, 200+rng.IntN(300))
					for b := range junk {
						junk[b] = byte(rng.Uint32())
					}
					if junk[0] == 0x16 || junk[0] == 0x47 {
						junk[0] ^= 0x80 // not the start of a TLS record or of "GET": such a stub would be waited for and dropped, not relayed
					}
				}
				c.Write(junk)
				vk.Wait()
				time.Sleep(20 * time.Second)
				vk.Wait()
				g.mu.Lock()
				dials := append([]string{}, g.redirDials...)
				g.mu.Unlock()
				want := "tcp!10.0.0.3:" + pt
				if len(dials) != k+1 {
					vkind, vdet = "not-relayed", fmt.Sprintf("peer %d (connected to port %s) was not relayed: %d redirect dials after %d unauthenticated peers", k, pt, len(dials), k+1)
				} else if dials[k] != want {
					vkind, vdet = "redirect-port", fmt.Sprintf("RedirAddr has no port; peer %d connected to port %s but was relayed to %s (a RedirAddr without port means: the same port the peer connected to, so that it sees the service a direct visitor of that port would see); earlier dials %v", k, pt, dials[k], dials[:k])
				}
				c.Close()
			}
			r.Count("redirect_port_peers", 9)
		})
		if p != nil && !leftover && vkind == "" {
			vkind, vdet = "panic", fmt.Sprint(p)
		}
		r.Count("evaluations", 1)
		r.Distinct("cases", vk.Hash64("rport", i))
		if vkind != "" {
			r.Violation(id, "C09:"+vkind, vdet, nil)
		} else {
			r.Pass(id)
		}
	}
	// concurrent hostile peers: unique long streams, judged by content
	for blk := 0; blk < r.Pick(6, 100); blk++ {
		id := fmt.Sprintf("concurrent-block-%d", blk)
		if !r.Mine(id) {
			continue
		}
		r.Case(id, nil)
		var vkind, vdet string
		procs := 16
		if blk%2 == 0 {
			procs = 1 // per-P caches (sync.Pool) hand a just-released buffer to the next connection
		}
		prevProcs := runtime.GOMAXPROCS(procs)
		p, leftover := vk.InBubble(t, func() {
			rng := r.Rand("c09c", blk)
			e := newC09Env(t, rng)
			defer e.g.cleanup()
			scripts := e.scripts(rng, blk, 40)
			var streams [][]byte
			var peers []*vk.Conn
			for _, gen := range scripts {
				s := gen()
				if s.Class != "all" || len(s.all()) < 64 {
					continue
				}
				streams = append(streams, s.all())
			}
			var taps []*c09Tap
			var tmu sync.Mutex
			go func() {
				for tc := range e.targets {
					tp := &c09Tap{}
					tmu.Lock()
					taps = append(taps, tp)
					tmu.Unlock()
					go tp.pump(tc)
				}
			}()
			for _, S := range streams {
				pc, _, _ := e.g.lis.DialPipe()
				peers = append(peers, pc)
				S := S
				go func() { pc.Write(S) }()
				go io.Copy(io.Discard, pc)
			}
			vk.Wait()
			time.Sleep(40 * time.Second)
			vk.Wait()
			tmu.Lock()
			matched := 0
			for _, tp := range taps {
				got, _ := tp.snap()
				ok := false
				for _, S := range streams {
					if bytes.Equal(S, got) {
						ok = true
					}
				}
				if ok {
					matched++
				} else {
					vkind, vdet = "target-bytes-differ", fmt.Sprintf("with %d hostile peers connected at once, one connection to the redirect target received %d bytes that are not the complete stream of any peer (cross-connection mix-up or loss)", len(streams), len(got))
				}
			}
			if vkind == "" && matched != len(streams) {
				vkind, vdet = "not-redirected", fmt.Sprintf("%d hostile peers sent complete records/requests but only %d streams reached the redirect target", len(streams), matched)
			}
			tmu.Unlock()
			r.Count("evaluations", int64(len(streams)))
			r.Count("concurrent_peers", int64(len(streams)))
			for _, pc := range peers {
				pc.Close()
			}
			if w := e.probe(rng); w != "" && vkind == "" {
				vkind, vdet = "server-wedged", w
			}
		})
		if p != nil && !leftover && vkind == "" {
			vkind, vdet = "panic", fmt.Sprint(p)
		}
		runtime.GOMAXPROCS(prevProcs)
		r.Distinct("cases", vk.Hash64("conc", blk))
		if vkind != "" {
			r.Violation(id, "C09:"+vkind, vdet, nil)
		} else {
			r.Pass(id)
		}
	}
}
