package server

// C19 (whole-system part) - the rates stored for a database user bound the traffic of ALL of that
// user's sessions and connections together. Several first connections of one user race through
// the real dispatcher (the user manager is wrapped to yield inside AuthenticateUser), then every
// session is saturated; the all-intervals bound is evaluated on the wire taps, virtual clock.

import (
	"fmt"
	"io"
	"runtime"
	"sync"
	"testing"
	"time"

	mux "github.com/cbeuw/Cloak/internal/multiplex"
	"github.com/cbeuw/Cloak/internal/server/usermanager"
	vk "github.com/cbeuw/Cloak/internal/verifkit"
)

type yieldAuthManager struct {
	usermanager.UserManager
}

func (y yieldAuthManager) AuthenticateUser(uid []byte) (int64, int64, error) {
	for i := 0; i < 12; i++ {
		runtime.Gosched()
	}
	a, b, err := y.UserManager.AuthenticateUser(uid)
	for i := 0; i < 12; i++ {
		runtime.Gosched()
	}
	return a, b, err
}

func TestVerif_C19Sys(t *testing.T) {
	r := vk.Open()
	defer r.Close()
	n := r.Pick(16, 300)
	for i := 0; i < n; i++ {
		id := fmt.Sprintf("system-rate-%d", i)
		if !r.Mine(id) {
			continue
		}
		rng := r.Rand("c19s", i)
		rate := []int64{50000, 200000, 30000}[i%3]
		nsess := 2 + rng.IntN(3)
		volume := int(rate) * 6 / nsess // about 6 virtual seconds beyond the burst for all sessions together
		r.Case(id, map[string]any{"rate": rate, "sessions": nsess, "bytes_per_session": volume})
		var vkind, vdet string
		prev := runtime.GOMAXPROCS([]int{2, 4, 16}[i%3])
		p, leftover := vk.InBubble(t, func() {
			g := newSrvRig(t, srvOpts{DB: true})
			defer g.cleanup()
			g.sta.Panel.Manager = yieldAuthManager{g.sta.Panel.Manager}
			g.serve()
			go g.echoProxy()
			uid := randUID(rng)
			j := usermanager.JustInt64
			g.sta.Panel.Manager.WriteUserInfo(usermanager.UserInfo{UID: uid, SessionsCap: usermanager.JustInt32(10), UpRate: j(rate), DownRate: j(rate), UpCredit: j(1 << 40), DownCredit: j(1 << 40), ExpiryTime: j(time.Now().Unix() + 1e6)})
			g.net.KeepReads = true
			start := time.Now()
			type sres struct {
				cs   *mux.Session
				pipe *vk.Pipe
			}
			var mu sync.Mutex
			var sess []sres
			// first connections of the user race each other
			gate := make(chan struct{})
			var wg sync.WaitGroup
			for k := 0; k < nsess; k++ {
				sid := uint32(10 + k)
				cfg := cliCfg{UID: uid, Method: "shadowsocks", Enc: "plain", Transport: "direct", Browser: "firefox", NumConn: 1, SessionID: sid}
				_, remote, auth, err := g.clientConfigs(cfg)
				if err != nil {
					panic(err)
				}
				wg.Add(1)
				go func() {
					defer wg.Done()
					<-gate
					conn, pipe, _ := g.lis.DialPipe()
					tr := remote.Transport.CreateTransport()
					key, err := tr.Handshake(conn, auth)
					if err != nil {
						return
					}
					obf, _ := muxObfuscator(auth.EncryptionMethod, key)
					cs := muxSession(sid, obf)
					cs.AddConnection(tr)
					mu.Lock()
					sess = append(sess, sres{cs, pipe})
					mu.Unlock()
				}()
			}
			close(gate)
			vk.Wait()
			time.Sleep(20 * time.Second)
			vk.Wait()
			if len(sess) != nsess {
				vkind, vdet = "handshake-refused", fmt.Sprintf("only %d of %d simultaneous first connections of one authorised user completed their handshake", len(sess), nsess)
				return
			}
			t0 := time.Since(start)
			for _, s := range sess {
				st, err := s.cs.OpenStream()
				if err != nil {
					vkind, vdet = "harness", err.Error()
					return
				}
				go io.Copy(io.Discard, st)
				go func() {
					left := volume
					for left > 0 {
						sz := min(left, 8000)
						if _, err := st.Write(make([]byte, sz)); err != nil {
							return
						}
						left -= sz
					}
				}()
			}
			vk.Wait()
			time.Sleep(2 * time.Hour)
			vk.Wait()
			var tx, rx []vk.RateEv
			var maxMsg int64
			for _, s := range sess {
				_, marks := s.pipe.Wire(1)
				for mi, m := range marks {
					if mi == 0 {
						continue // the handshake reply (ServerHello, CCS, first record) is one write
					}
					tx = append(tx, vk.RateEv{T: m.T.Sub(start), N: int64(m.N - 5)})
					maxMsg = max(maxMsg, int64(m.N-5))
				}
				_, up := s.pipe.Wire(0)
				calls := s.pipe.ReadCalls(0)
				ci := 0
				for mi, m := range up {
					if mi == 0 {
						continue // ClientHello
					}
					end := m.Off + int64(m.N)
					for ci < len(calls) && calls[ci].Off < end {
						ci++
					}
					if ci < len(calls) && calls[ci].Off == end {
						rx = append(rx, vk.RateEv{T: calls[ci].T.Sub(start), N: int64(m.N - 5)})
					}
				}
			}
			_ = t0
			r.Count("tx_records", int64(len(tx)))
			r.Count("rx_records", int64(len(rx)))
			for name, evs := range map[string][]vk.RateEv{"server->client": tx, "client->server": rx} {
				if len(evs) < 5 {
					vkind, vdet = "harness", fmt.Sprintf("too few %s records observed (%d)", name, len(evs))
					return
				}
				ex, at, span := vk.RateExcess(evs, float64(rate), max(float64(rate), float64(maxMsg)))
				if ex > 0 {
					vkind, vdet = "user-rate-exceeded", fmt.Sprintf("%s: %d sessions of ONE user (rate %d B/s) together moved %.0f bytes more than (rate x t + one second's worth) x 1.01 within an interval of %v ending at t=%v: the allowance is not shared across the user's sessions", name, nsess, rate, ex, span, at.T)
					return
				}
				var total int64
				for _, e := range evs {
					total += e.N
				}
				T := (evs[len(evs)-1].T - evs[0].T).Seconds()
				if float64(total) < float64(rate)*T*0.99-float64(maxMsg)-float64(rate) {
					vkind, vdet = "held-below-rate", fmt.Sprintf("%s: backlogged sessions moved only %d bytes in %.1f virtual seconds at %d B/s", name, total, T, rate)
					return
				}
				r.Max("virtual_seconds", int64(T))
			}
			for _, s := range sess {
				s.cs.Close()
			}
			vk.Wait()
		})
		runtime.GOMAXPROCS(prev)
		if p != nil && !leftover && vkind == "" {
			vkind, vdet = "panic", fmt.Sprint(p)
		}
		r.Distinct("cases", vk.Hash64("c19s", i, rate, nsess))
		if i < 2 {
			r.Sample(map[string]any{"rate": rate, "sessions_of_one_user": nsess, "bytes_per_session": volume})
		}
		if vkind != "" {
			r.Violation(id, "C19:"+vkind, vdet, nil)
		} else {
			r.Pass(id)
		}
	}
}
