package server

// C07 - only holders of valid, timely credentials are ever treated as Cloak clients.
// Component level: every single-bit modification of genuine first packets on fresh states, packets
// sealed to another key, and the exact edges of the timestamp window in integer nanoseconds.
// Dispatch level (real Serve loop): unauthorised UIDs / unknown proxy methods get no handshake
// reply, and the admin API answers only to (AdminUID, session id 0).

import (
	"bytes"
	"crypto/rand"
	"encoding/base64"
	"encoding/binary"
	"fmt"
	"io"
	mrand "math/rand/v2"
	"strings"
	"testing"
	"time"

	"github.com/cbeuw/Cloak/internal/client"
	"github.com/cbeuw/Cloak/internal/common"
	"github.com/cbeuw/Cloak/internal/server/usermanager"
	vk "github.com/cbeuw/Cloak/internal/verifkit"
)

type genuine struct {
	first []byte
	tr    Transport
	info  ClientInfo
	at    time.Time // server time at which it was created
	cfg   cliCfg
	// byte ranges of the sealed identity block inside first
	sealed [][2]int
	topBit int // offset of the byte holding the X25519-ignored top bit (random[31]), -1 if unknown
}

func freshState(pv *[32]byte, now time.Time) *State {
	return &State{StaticPv: pv, WorldState: common.WorldOfTime(now), UsedRandom: map[[32]byte]int64{}}
}

// capture runs one real client handshake far enough to obtain its genuine first packet.
func (g *srvRig) capture(c cliCfg) (*genuine, error) {
	at := g.world.Now()
	res := g.componentHandshake(c, nil)
	if res.srvErr != nil || res.cliErr != nil {
		return nil, fmt.Errorf("capture failed: %v / %v at %s", res.srvErr, res.cliErr, res.stage)
	}
	if res.prepared != nil {
		res.prepared.Close()
	}
	res.cliConn.Close()
	gp := &genuine{first: res.first, tr: res.tr, info: res.info, at: at, cfg: c, topBit: -1}
	if _, ok := res.tr.(TLS); ok {
		ch, err := vk.ParseClientHello(res.first[5:])
		if err != nil {
			return nil, err
		}
		find := func(b []byte) int { return bytes.Index(res.first, b) }
		r0 := find(ch.Random)
		gp.sealed = append(gp.sealed, [2]int{r0, r0 + 32})
		gp.topBit = r0 + 31
		s0 := find(ch.SessionID)
		gp.sealed = append(gp.sealed, [2]int{s0, s0 + 32})
		k0 := find(ch.KeyShares[0x1d])
		gp.sealed = append(gp.sealed, [2]int{k0, k0 + 32})
	} else {
		// WebSocket: the base64 value of the hidden header
		low := strings.ToLower(string(res.first))
		i := strings.Index(low, "\r\nhidden: ")
		if i < 0 {
			return nil, fmt.Errorf("hidden header not found")
		}
		st := i + len("\r\nhidden: ")
		en := st + strings.Index(string(res.first[st:]), "\r\n")
		gp.sealed = append(gp.sealed, [2]int{st, en})
	}
	return gp, nil
}

func (gp *genuine) inSealed(off int) bool {
	for _, r := range gp.sealed {
		if off >= r[0] && off < r[1] {
			return true
		}
	}
	return false
}

// sealedDiff compares the sealed block of a modified packet with the genuine one: changed reports
// any difference, onlyTop that the only difference is the X25519-ignored top bit of the key.
func (gp *genuine) sealedDiff(mod []byte) (changed, onlyTop bool) {
	if gp.topBit < 0 && len(gp.sealed) == 1 {
		// WebSocket: compare the decoded hidden value (96 bytes); the key's top bit is bit 7 of byte 31
		r := gp.sealed[0]
		orig, _ := base64.StdEncoding.DecodeString(string(gp.first[r[0]:r[1]]))
		if r[1] > len(mod) {
			return true, false
		}
		dec, err := base64.StdEncoding.DecodeString(string(mod[r[0]:r[1]]))
		if err != nil || len(dec) != len(orig) {
			return !bytes.Equal(mod[r[0]:r[1]], gp.first[r[0]:r[1]]), false
		}
		if bytes.Equal(dec, orig) {
			return false, false
		}
		dec[31] ^= 0x80
		return true, bytes.Equal(dec, orig)
	}
	onlyTop = true
	for _, r := range gp.sealed {
		for i := r[0]; i < r[1]; i++ {
			if i >= len(mod) || mod[i] != gp.first[i] {
				changed = true
				if !(i == gp.topBit && i < len(mod) && mod[i]^gp.first[i] == 0x80) {
					onlyTop = false
				}
			}
		}
	}
	if !changed {
		onlyTop = false
	}
	return
}

func sameInfo(a, b ClientInfo) bool {
	return bytes.Equal(a.UID, b.UID) && a.SessionId == b.SessionId && a.ProxyMethod == b.ProxyMethod && a.EncryptionMethod == b.EncryptionMethod && a.Unordered == b.Unordered
}

func TestVerif_C07(t *testing.T) {
	r := vk.Open()
	defer r.Close()

	// ---- (a) single-bit and random modifications of genuine first packets --------------------
	bases := []cliCfg{
		{Browser: "firefox", Transport: "direct"}, {Browser: "chrome", Transport: "direct"}, {Browser: "safari", Transport: "direct"}, {Transport: "cdn"},
	}
	for bi, base := range bases {
		nshard := 8
		for part := 0; part < nshard; part++ {
			id := fmt.Sprintf("mutate/%s-%s/part%d", base.Transport, base.Browser, part)
			if !r.Mine(id) {
				continue
			}
			r.Case(id, nil)
			rng := r.Rand("c07", id)
			var gp *genuine
			var g *srvRig
			p, leftover := vk.InBubble(t, func() {
				g = newSrvRig(t, srvOpts{})
				c := base
				c.UID = randUID(rng)
				c.Method = "shadowsocks"
				c.Enc = "aes-gcm"
				c.SessionID = rng.Uint32()
				c.NumConn = 1
				var err error
				gp, err = g.capture(c)
				if err != nil {
					panic(err)
				}
			})
			if gp == nil {
				r.Inconclusive(id, fmt.Sprintf("could not capture a genuine packet: %v %v", p, leftover))
				continue
			}
			viol := map[string]string{}
			present := func(mod []byte, what string, _ bool, _ bool) {
				sealedTouched, topBitOnly := gp.sealedDiff(mod)
				sta := freshState(&g.pv, gp.at)
				info, _, err := AuthFirstPacket(mod, gp.tr, sta)
				r.Count("evaluations", 1)
				if err != nil {
					r.Count("rejected", 1)
					return
				}
				r.Count("accepted_variants", 1)
				if !sameInfo(info, gp.info) {
					viol["accepted-with-different-identity"] = fmt.Sprintf("%s: accepted, and the recovered client info %+v differs from the genuine %+v", what, info, gp.info)
					return
				}
				if sealedTouched && !topBitOnly {
					viol["accepted-modified-sealed-block"] = fmt.Sprintf("%s: a packet whose sealed authentication block was modified was accepted as a Cloak handshake", what)
				}
				if topBitOnly {
					r.Count("x25519_top_bit_variants_accepted", 1)
				}
			}
			// sanity: the genuine packet is accepted by a fresh state
			if _, _, err := AuthFirstPacket(append([]byte{}, gp.first...), gp.tr, freshState(&g.pv, gp.at)); err != nil {
				r.Violation(id, "C07:genuine-rejected", fmt.Sprintf("the unmodified genuine packet is rejected by a fresh state: %v", err), nil)
				continue
			}
			nbits := len(gp.first) * 8
			stride := 1
			if !r.Thorough() {
				stride = 3 // quick: every third bit, all bits of the sealed block
			}
			for b := part; b < nbits; b += nshard {
				off := b / 8
				sealed := gp.inSealed(off)
				if !sealed && (b/nshard)%stride != 0 {
					continue
				}
				mod := append([]byte{}, gp.first...)
				mod[off] ^= 1 << uint(b%8)
				present(mod, fmt.Sprintf("bit %d of byte %d flipped (%d-byte %s packet)", b%8, off, len(gp.first), base.Transport), sealed, off == gp.topBit && b%8 == 7)
				r.Count("bitflips", 1)
			}
			// random multi-byte modifications, truncations
			for k := 0; k < r.Pick(150, 5000); k++ {
				mod := append([]byte{}, gp.first...)
				touched := false
				nb := 1 + rng.IntN(5)
				for j := 0; j < nb; j++ {
					off := rng.IntN(len(mod))
					if rng.IntN(2) == 0 && len(gp.sealed) > 0 {
						sr := gp.sealed[rng.IntN(len(gp.sealed))]
						off = sr[0] + rng.IntN(sr[1]-sr[0])
					}
					old := mod[off]
					for mod[off] == old {
						mod[off] = byte(rng.Uint32())
					}
					touched = touched || gp.inSealed(off)
				}
				present(mod, fmt.Sprintf("%d random byte(s) changed", nb), touched, false)
			}
			for k := 0; k < 40; k++ {
				cut := 1 + rng.IntN(len(gp.first)-1)
				sta := freshState(&g.pv, gp.at)
				if _, _, err := AuthFirstPacket(append([]byte{}, gp.first[:cut]...), gp.tr, sta); err == nil {
					viol["accepted-truncated"] = fmt.Sprintf("packet truncated to %d of %d bytes accepted", cut, len(gp.first))
				}
				r.Count("evaluations", 1)
			}
			// sealed to another server key
			for k := 0; k < 8; k++ {
				var otherPv [32]byte
				rand.Read(otherPv[:])
				if _, _, err := AuthFirstPacket(append([]byte{}, gp.first...), gp.tr, freshState(&otherPv, gp.at)); err == nil {
					viol["accepted-foreign-key"] = "a packet sealed to another server's public key was accepted"
				}
				r.Count("evaluations", 1)
			}
			// forged by someone who does not know the server's key: the ephemeral key is replaced by a
			// point for which the shared secret does not depend on any private key (low order), and the
			// identity block is sealed under the secret such a point would give (all zero)
			if part == 0 {
				for _, pt := range forgePoints() {
					forged := gp.forge(pt, rng)
					if forged == nil {
						continue
					}
					r.Count("evaluations", 1)
					r.Count("low_order_forgeries", 1)
					if info, _, err := AuthFirstPacket(forged, gp.tr, freshState(&g.pv, gp.at)); err == nil {
						viol["accepted-forgery-without-server-key"] = fmt.Sprintf("a first packet built without any knowledge of the server's key (ephemeral key %x..., identity block sealed under the all-zero secret) was accepted as a Cloak handshake for UID %x", pt[:4], info.UID)
					}
				}
			}
			r.Count("distinct_enumerated", 1)
			if bi == 0 && part == 0 {
				r.Sample(map[string]any{"packet": base.Transport + "/" + base.Browser, "bytes": len(gp.first), "sealed_ranges": gp.sealed})
			}
			if len(viol) == 0 {
				r.Pass(id)
			} else {
				for k, d := range viol {
					r.Violation(id, "C07:"+k, d, nil)
				}
			}
		}
	}

	// ---- (b) the timestamp window in exact integer arithmetic ---------------------------------
	for ti, transport := range []string{"direct", "cdn"} {
		id := "window/" + transport
		if !r.Mine(id) {
			continue
		}
		r.Case(id, nil)
		var bad string
		checked := 0
		var g *srvRig
		// one genuine packet per client timestamp is needed; they are produced by the real client
		// with its clock set to T0+d, then presented to fresh states whose clock is T0+phase
		T0 := time.Unix(1700000000, 0)
		phases := []time.Duration{0, 1, 500 * time.Millisecond, 999999999}
		var offsets []time.Duration
		for d := -400; d <= 400; d += r.Pick(7, 1) {
			offsets = append(offsets, time.Duration(d)*time.Second)
		}
		for _, e := range []time.Duration{1, time.Millisecond, time.Second, 999999999} {
			offsets = append(offsets, 180*time.Second+e, 180*time.Second-e, -180*time.Second+e, -180*time.Second-e)
		}
		offsets = append(offsets, 180*time.Second, -180*time.Second, 179*time.Second, -179*time.Second, 181*time.Second, -181*time.Second)
		var instants []time.Time
		for _, d := range offsets {
			instants = append(instants, T0.Add(d))
		}
		// far outside the window, up to where 64-bit durations saturate or wrap
		instants = append(instants, T0.Add(24*time.Hour), T0.Add(-24*time.Hour), T0.AddDate(100, 0, 0), T0.AddDate(-100, 0, 0), T0.AddDate(291, 0, 0), T0.AddDate(293, 0, 0),
			T0.AddDate(300, 0, 0), T0.AddDate(400, 0, 0), T0.AddDate(-300, 0, 0), T0.AddDate(-400, 0, 0), T0.AddDate(585, 0, 0), time.Unix(1<<40, 0), time.Unix(1<<62, 0), time.Unix(1<<63-1, 0), time.Unix(0, 0), time.Unix(-1, 0))
		vk.InBubble(t, func() {
			g = newSrvRig(t, srvOpts{})
			rng := r.Rand("c07w", ti)
			for _, cliNow := range instants {
				if bad != "" {
					break
				}
				c := cliCfg{UID: randUID(rng), Method: "shadowsocks", Enc: "plain", Transport: transport, Browser: "firefox", NumConn: 1, SessionID: 9}
				// client clock stuck at cliNow (the bubble's own clock is irrelevant: both clocks are injected)
				c.AbsNow = &cliNow
				saved := g.sta.WorldState
				g.sta.WorldState = common.WorldOfTime(cliNow) // capture under a server clock equal to the client's
				gp, err := g.capture(c)
				g.sta.WorldState = saved
				if err != nil {
					bad = "capture: " + err.Error()
					break
				}
				ts := cliNow.Unix() // what the client embeds (whole seconds)
				for _, ph := range phases {
					srvNow := T0.Add(ph)
					_, _, err := AuthFirstPacket(append([]byte{}, gp.first...), gp.tr, freshState(&g.pv, srvNow))
					want, diff := false, int64(0)
					if ds := ts - srvNow.Unix(); ts >= srvNow.Unix()-200 && ts <= srvNow.Unix()+200 && ds >= -200 && ds <= 200 { // (no overflow near the window)
						diff = ts*1e9 - srvNow.UnixNano()
						want = diff > -180e9 && diff < 180e9
					}
					checked++
					if (err == nil) != want {
						bad = fmt.Sprintf("%s: packet with embedded timestamp %d presented at server time %d.%09d (timestamp - server time = %d ns, 0 = far outside): accepted=%v, the window -180 s < diff < 180 s says %v (err %v)", transport, ts, srvNow.Unix(), srvNow.Nanosecond(), diff, err == nil, want, err)
						break
					}
				}
			}
		})
		r.Count("evaluations", int64(checked))
		r.Count("window_points", int64(checked))
		r.Count("distinct_enumerated", 1)
		if bad != "" {
			r.Violation(id, "C07:timestamp-window", bad, nil)
		} else if checked == 0 {
			r.Inconclusive(id, "no window point checked")
		} else {
			r.Pass(id)
		}
	}

	// ---- (c) dispatch level: authorisation and the admin gate ---------------------------------
	type dcase struct {
		name       string
		uidClass   string // bypass, dbok, unknown, nocredit, expired, admin, zero
		method     string
		sid        uint32
		wantReply  bool
		wantAdmin  bool
		noAdminCfg bool
	}
	dcases := []dcase{
		{"bypass-ok", "bypass", "shadowsocks", 7, true, false, false},
		{"db-user-ok", "dbok", "shadowsocks", 7, true, false, false},
		{"unknown-uid", "unknown", "shadowsocks", 7, false, false, false},
		{"unknown-uid-sid0", "unknown", "shadowsocks", 0, false, false, false},
		{"no-credit", "nocredit", "shadowsocks", 7, false, false, false},
		{"no-down-credit", "nodown", "shadowsocks", 7, false, false, false},
		{"expired", "expired", "shadowsocks", 7, false, false, false},
		{"unknown-method", "bypass", "nosuchmethod", 7, false, false, false},
		{"unknown-method-db", "dbok", "Shadowsocks", 7, false, false, false},
		{"admin-sid0", "admin", "shadowsocks", 0, true, true, false},
		{"admin-sid0-unknown-method", "admin", "whatever", 0, true, true, false},
		{"admin-sid-nonzero", "admin", "shadowsocks", 5, true, false, false},
		{"bypass-sid0", "bypass", "shadowsocks", 0, true, false, false},
		{"dbuser-sid0", "dbok", "shadowsocks", 0, true, false, false},
		{"zero-uid-sid0-no-admin-configured", "zero", "shadowsocks", 0, false, false, true},
		{"zero-uid-sid0", "zero", "shadowsocks", 0, false, false, false},
		{"unknown-method-joining-live-session", "bypass-live", "nosuchmethod", 7, false, false, false},
		{"unknown-method-joining-live-session-db", "dbok-live", "nosuchmethod", 7, false, false, false},
	}
	for di, dc := range dcases {
		for ti, transport := range []string{"direct", "cdn"} {
			id := fmt.Sprintf("dispatch/%s/%s", dc.name, transport)
			if !r.Mine(id) {
				continue
			}
			r.Case(id, dc.name)
			var vkind, vdet string
			p, leftover := vk.InBubble(t, func() {
				rng := r.Rand("c07d", di, ti)
				adminUID := []byte("ADMINADMINADMIN!")
				bypass := randUID(rng)
				o := srvOpts{Bypass: [][]byte{bypass}, AdminUID: adminUID, DB: true}
				if dc.noAdminCfg {
					o = srvOpts{Bypass: [][]byte{bypass}}
				}
				g := newSrvRig(t, o)
				defer g.cleanup()
				now := time.Now().Unix()
				mk := func(up, down, exp int64) []byte {
					uid := randUID(rng)
					if !dc.noAdminCfg {
						g.sta.Panel.Manager.WriteUserInfo(usermanager.UserInfo{UID: uid, SessionsCap: usermanager.JustInt32(5), UpRate: usermanager.JustInt64(1 << 30), DownRate: usermanager.JustInt64(1 << 30),
							UpCredit: usermanager.JustInt64(up), DownCredit: usermanager.JustInt64(down), ExpiryTime: usermanager.JustInt64(exp)})
					}
					return uid
				}
				var uid []byte
				live := false
				if strings.HasSuffix(dc.uidClass, "-live") {
					live = true
					dc.uidClass = strings.TrimSuffix(dc.uidClass, "-live")
				}
				switch dc.uidClass {
				case "bypass":
					uid = bypass
				case "dbok":
					uid = mk(1<<30, 1<<30, now+1000)
				case "unknown":
					uid = randUID(rng)
				case "nocredit":
					uid = mk(0, 1<<30, now+1000)
				case "nodown":
					uid = mk(1<<30, -5, now+1000)
				case "expired":
					uid = mk(1<<30, 1<<30, now-1)
				case "admin":
					uid = adminUID
				case "zero":
					uid = make([]byte, 16)
				}
				g.serve()
				// proxy and redirect targets record what reaches them
				var proxyGot, redirGot bytes.Buffer
				go func() {
					for {
						c, err := g.proxyL.Accept()
						if err != nil {
							return
						}
						go func() { io.Copy(&proxyGot, c) }()
					}
				}()
				go func() {
					for {
						c, err := g.redirL.Accept()
						if err != nil {
							return
						}
						go func() { io.Copy(&redirGot, c) }()
					}
				}()
				if live {
					// the same user already has a live session with this id, opened with a served method
					lc := cliCfg{UID: uid, Method: "shadowsocks", Enc: "aes-gcm", Transport: transport, Browser: "chrome", NumConn: 1, SessionID: dc.sid}
					_, lremote, lauth, _ := g.clientConfigs(lc)
					ls := g.makeSession(lremote, lauth, transport)
					if ls == nil {
						vkind, vdet = "harness", "could not open the live session"
						return
					}
					lst, _ := ls.OpenStream()
					lst.Write([]byte("keep this session alive"))
					vk.Wait()
				}
				c := cliCfg{UID: uid, Method: dc.method, Enc: "aes-gcm", Transport: transport, Browser: "chrome", NumConn: 1, SessionID: dc.sid}
				_, remote, auth, err := g.clientConfigs(c)
				if err != nil {
					vkind, vdet = "config", err.Error()
					return
				}
				conn, _ := g.dialerFor(transport).Dial("tcp", "")
				tr := remote.Transport.CreateTransport()
				type hres struct {
					key [32]byte
					err error
				}
				hc := make(chan hres, 1)
				go func() {
					k, err := tr.Handshake(conn, auth)
					hc <- hres{k, err}
				}()
				vk.Wait()
				time.Sleep(20 * time.Second) // beyond the first-packet timeout; virtual
				vk.Wait()
				var hr hres
				got := false
				select {
				case hr = <-hc:
					got = true
				default:
				}
				replied := got && hr.err == nil
				if replied != dc.wantReply {
					vkind, vdet = "reply", fmt.Sprintf("case %s over %s: handshake reply received=%v (err %v), expected %v; bytes at redirect target: %d", dc.name, transport, replied, hr.err, dc.wantReply, redirGot.Len())
					return
				}
				if !dc.wantReply {
					if redirGot.Len() == 0 {
						vkind, vdet = "not-redirected", fmt.Sprintf("case %s over %s: no reply, but nothing reached the redirect target either", dc.name, transport)
					}
					conn.Close()
					return
				}
				// reply received: where does an admin API request land?
				obfs, err := muxObfuscator(auth.EncryptionMethod, hr.key)
				if err != nil {
					vkind, vdet = "harness", err.Error()
					return
				}
				sesh := muxSession(auth.SessionId, obfs)
				sesh.AddConnection(tr)
				st, err := sesh.OpenStream()
				if err != nil {
					vkind, vdet = "harness", err.Error()
					return
				}
				st.Write([]byte("GET /admin/users HTTP/1.1\r\nHost: x\r\n\r\n"))
				var resp []byte
				rdone := make(chan struct{})
				go func() {
					buf := make([]byte, 4096)
					n, _ := st.Read(buf)
					resp = buf[:n]
					close(rdone)
				}()
				vk.Wait()
				time.Sleep(5 * time.Second)
				vk.Wait()
				answered := false
				select {
				case <-rdone:
					answered = bytes.HasPrefix(resp, []byte("HTTP/1."))
				default:
				}
				if answered != dc.wantAdmin {
					vkind, vdet = "admin-gate", fmt.Sprintf("case %s over %s (UID class %s, session id %d): the user-management API answered=%v, expected %v (proxy server received %d bytes)", dc.name, transport, dc.uidClass, dc.sid, answered, dc.wantAdmin, proxyGot.Len())
				}
				if !dc.wantAdmin && proxyGot.Len() == 0 {
					vkind, vdet = "not-proxied", fmt.Sprintf("case %s: non-admin session's request did not reach the proxy server", dc.name)
				}
				sesh.Close()
				vk.Wait()
			})
			if p != nil && !leftover && vkind == "" {
				vkind, vdet = "panic", fmt.Sprint(p)
			}
			r.Count("evaluations", 1)
			r.Count("dispatch_cases", 1)
			r.Count("distinct_enumerated", 1)
			if vkind != "" {
				r.Violation(id, "C07:"+vkind, vdet, nil)
			} else {
				r.Pass(id)
			}
		}
	}
	r.Distinct("cases", "mutate")
	r.Distinct("cases", "window+dispatch")
	_ = client.RawConfig{}
	_ = mrand.Int
}

// forgePoints lists Curve25519 public values of small order (the shared secret with any private
// key is all zero; crypto libraries report an error for them) and their non-canonical aliases.
func forgePoints() [][32]byte {
	var pts [][32]byte
	var zero, one [32]byte
	one[0] = 1
	pts = append(pts, zero, one)
	// p-1, p, p+1 (little endian), p = 2^255-19
	for _, d := range []int{-1, 0, 1} {
		var v [32]byte
		for i := range v {
			v[i] = 0xff
		}
		v[31] = 0x7f
		v[0] = byte(0xed + d)
		pts = append(pts, v)
	}
	// the two order-8 points
	o8a := [32]byte{0xe0, 0xeb, 0x7a, 0x7c, 0x3b, 0x41, 0xb8, 0xae, 0x16, 0x56, 0xe3, 0xfa, 0xf1, 0x9f, 0xc4, 0x6a, 0xda, 0x09, 0x8d, 0xeb, 0x9c, 0x32, 0xb1, 0xfd, 0x86, 0x62, 0x05, 0x16, 0x5f, 0x49, 0xb8, 0x00}
	o8b := [32]byte{0x5f, 0x9c, 0x95, 0xbc, 0xa3, 0x50, 0x8c, 0x24, 0xb1, 0xd0, 0xb1, 0x55, 0x9c, 0x83, 0xef, 0x5b, 0x04, 0x44, 0x5c, 0xc4, 0x58, 0x1c, 0x8e, 0x86, 0xd8, 0x22, 0x4e, 0xdd, 0xd0, 0x9f, 0x11, 0x57}
	pts = append(pts, o8a, o8b)
	return pts
}

// forge rebuilds the genuine packet with the ephemeral key pt and an identity block sealed under
// the all-zero shared secret (AES-256-GCM, nonce = first 12 bytes of the key, as the protocol does).
func (gp *genuine) forge(pt [32]byte, rng *mrand.Rand) []byte {
	plain := make([]byte, 48)
	copy(plain, gp.info.UID)
	copy(plain[16:28], gp.info.ProxyMethod)
	plain[28] = gp.info.EncryptionMethod
	binary.BigEndian.PutUint64(plain[29:37], uint64(gp.at.Unix()))
	binary.BigEndian.PutUint32(plain[37:41], gp.info.SessionId)
	var zeroKey [32]byte
	ct, err := common.AESGCMEncrypt(pt[:12], zeroKey[:], plain)
	if err != nil || len(ct) != 64 {
		return nil
	}
	out := append([]byte{}, gp.first...)
	if gp.topBit >= 0 && len(gp.sealed) == 3 {
		copy(out[gp.sealed[0][0]:], pt[:])
		copy(out[gp.sealed[1][0]:], ct[:32])
		copy(out[gp.sealed[2][0]:], ct[32:])
		return out
	}
	if len(gp.sealed) == 1 {
		hid := base64.StdEncoding.EncodeToString(append(append([]byte{}, pt[:]...), ct...))
		r := gp.sealed[0]
		return append(append(append([]byte{}, gp.first[:r[0]]...), hid...), gp.first[r[1]:]...)
	}
	return nil
}
