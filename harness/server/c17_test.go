package server

// C17 - user bookkeeping never deadlocks and never loses track of a live session.
// In-package harness on the real userPanel / ActiveUser with a bbolt manager:
//  (1) storms of concurrent bookkeeping calls under the race detector, completion judged by a
//      goroutine-dump classifier (a verdict needs a stable set of calls that all wait for mutexes),
//  (2) the two interleavings the property names, forced through hooks,
//  (3) the ownership invariant evaluated under the panel's own locks at quiescent points.

import (
	"errors"
	"fmt"
	mrand "math/rand/v2"
	"os"
	"path/filepath"
	"runtime"
	"sort"
	"strings"
	"sync"
	"sync/atomic"
	"testing"
	"time"

	"github.com/cbeuw/Cloak/internal/common"
	mux "github.com/cbeuw/Cloak/internal/multiplex"
	"github.com/cbeuw/Cloak/internal/server/usermanager"
	"github.com/cbeuw/Cloak/internal/verifhook"
	vk "github.com/cbeuw/Cloak/internal/verifkit"
)

type c17Env struct {
	panel *userPanel
	mgr   usermanager.UserManager
	dir   string
	uids  [][]byte
	mu    sync.Mutex
	given map[*mux.Session][2]uint32 // every session handed out by GetSession -> (uid index, sid)
	// every failEvery-th status upload fails when > 0
	failEvery     atomic.Int64
	uploadsFailed atomic.Int64
}

// flakyManager makes every failEvery-th status upload fail (a user database that is briefly
// unreachable); everything else goes to the real manager.
type flakyManager struct {
	usermanager.UserManager
	failEvery *atomic.Int64
	n         *atomic.Int64
	failed    *atomic.Int64
}

func (m flakyManager) UploadStatus(s []usermanager.StatusUpdate) ([]usermanager.StatusResponse, error) {
	if fe := m.failEvery.Load(); fe > 0 && m.n.Add(1)%fe == 0 {
		m.failed.Add(1)
		return nil, errors.New("injected fault: the user manager is unreachable")
	}
	return m.UserManager.UploadStatus(s)
}

func newC17Env(rng *mrand.Rand, nu int, cap int32) *c17Env {
	dir, err := os.MkdirTemp("", "verif-c17-")
	if err != nil {
		panic(err)
	}
	mgr, err := usermanager.MakeLocalManager(filepath.Join(dir, "u.db"), common.RealWorldState)
	if err != nil {
		panic(err)
	}
	e := &c17Env{mgr: mgr, dir: dir, given: map[*mux.Session][2]uint32{}}
	e.panel = MakeUserPanel(flakyManager{mgr, &e.failEvery, new(atomic.Int64), &e.uploadsFailed})
	for i := 0; i < nu; i++ {
		uid := randUID(rng)
		e.uids = append(e.uids, uid)
		j := usermanager.JustInt64
		mgr.WriteUserInfo(usermanager.UserInfo{UID: uid, SessionsCap: usermanager.JustInt32(cap), UpRate: j(1 << 30), DownRate: j(1 << 30), UpCredit: j(1 << 40), DownCredit: j(1 << 40), ExpiryTime: j(time.Now().Unix() + 1e7)})
	}
	return e
}

func (e *c17Env) close() {
	if c, ok := e.mgr.(interface{ Close() error }); ok {
		c.Close()
	}
	os.RemoveAll(e.dir)
}

func c17Config() mux.SessionConfig {
	var key [32]byte
	obf, _ := mux.MakeObfuscator(mux.EncryptionMethodPlain, key)
	return mux.SessionConfig{Obfuscator: obf, InactivityTimeout: 100 * time.Hour}
}

// admit does what dispatchConnection does for one connection of (uid, sid).
func (e *c17Env) admit(ui int, sid uint32) (*ActiveUser, *mux.Session) {
	var u *ActiveUser
	var s *mux.Session
	var err error
	for try := 0; try < 50; try++ {
		u, err = e.panel.GetUser(e.uids[ui])
		if err != nil {
			return nil, nil
		}
		s, _, err = u.GetSession(sid, c17Config())
		if err == nil {
			break
		}
		runtime.Gosched() // the dispatcher looks the user up again when the record was deregistered under it
	}
	if err != nil {
		return u, nil
	}
	e.mu.Lock()
	e.given[s] = [2]uint32{uint32(ui), sid}
	e.mu.Unlock()
	return u, s
}

// ownership evaluates the invariant under the panel's own locks.
func (e *c17Env) ownership() string {
	e.mu.Lock()
	defer e.mu.Unlock()
	e.panel.activeUsersM.RLock()
	defer e.panel.activeUsersM.RUnlock()
	for s, who := range e.given {
		if s.IsClosed() {
			continue
		}
		var arr [16]byte
		copy(arr[:], e.uids[who[0]])
		u := e.panel.activeUsers[arr]
		if u == nil {
			return fmt.Sprintf("a live session (uid%d, sid %d) exists but its user is not registered in the panel: its usage is never reported and it cannot be terminated", who[0], who[1])
		}
		u.sessionsM.RLock()
		reg := u.sessions[who[1]]
		u.sessionsM.RUnlock()
		if reg != s {
			return fmt.Sprintf("a live session (uid%d, sid %d) is not the session registered under that id in the user's single active record (registered: %v)", who[0], who[1], reg != nil)
		}
	}
	return ""
}

// waitOrClassify waits for done; if it does not come, it polls goroutine dumps and decides.
// Returns ("", "") when done, ("deadlock", detail) for a stable all-mutex wait set,
// ("inconclusive", detail) otherwise.
func waitOrClassify(done chan struct{}, first time.Duration) (string, string) {
	select {
	case <-done:
		return "", ""
	case <-time.After(first):
	}
	var prev string
	stable := 0
	for poll := 0; poll < 12; poll++ {
		select {
		case <-done:
			return "", ""
		default:
		}
		gs := vk.Goroutines()
		var blocked []string
		allLocks := true
		for _, g := range gs {
			inBook := false
			fn := ""
			for _, f := range g.Funcs {
				if strings.Contains(f, "internal/server.(*userPanel)") || strings.Contains(f, "internal/server.(*ActiveUser)") {
					inBook = true
					fn = f
					break
				}
			}
			if !inBook {
				continue
			}
			if strings.Contains(fn, "regularQueueUpload") && g.Reason == "sleep" {
				continue // the panel's timer loop between rounds: holds no lock
			}
			blocked = append(blocked, fmt.Sprintf("goroutine %s [%s] in %s", g.ID, g.Reason, fn[strings.LastIndex(fn, "/")+1:]))
			if !vk.IsLockWait(g.Reason) {
				allLocks = false
			}
		}
		sort.Strings(blocked)
		cur := strings.Join(blocked, "; ")
		if cur == prev && allLocks && len(blocked) >= 2 {
			stable++
			if stable >= 3 {
				return "deadlock", "bookkeeping calls are blocked on each other's mutexes (identical in 4 consecutive goroutine dumps 2 s apart, every one waiting for a lock, none running): " + cur
			}
		} else {
			stable = 0
		}
		prev = cur
		time.Sleep(2 * time.Second)
	}
	return "inconclusive", "operations did not finish, but the goroutine dumps do not show a stable all-mutex wait set: " + prev
}

func c17Storm(r *vk.Reporter, rng *mrand.Rand, workers, ops int) (string, string) {
	e := newC17Env(rng, 1+rng.IntN(4), 1000)
	defer e.close()
	if rng.IntN(2) == 0 {
		e.failEvery.Store(int64(3 + rng.IntN(8))) // in half of the storms some status uploads fail
	}
	var wg sync.WaitGroup
	done := make(chan struct{})
	for w := 0; w < workers; w++ {
		seed := rng.Uint64()
		wg.Add(1)
		go func() {
			defer wg.Done()
			lr := mrand.New(mrand.NewPCG(seed, 17))
			for k := 0; k < ops; k++ {
				ui := lr.IntN(len(e.uids))
				sid := uint32(lr.IntN(3))
				switch lr.IntN(8) {
				case 0, 1, 2:
					e.admit(ui, sid)
				case 3, 4:
					var arr [16]byte
					copy(arr[:], e.uids[ui])
					e.panel.activeUsersM.RLock()
					u := e.panel.activeUsers[arr]
					e.panel.activeUsersM.RUnlock()
					if u != nil {
						u.CloseSession(sid, "storm")
					}
				case 5:
					e.panel.updateUsageQueue()
				case 6:
					e.panel.commitUpdate()
				case 7:
					var arr [16]byte
					copy(arr[:], e.uids[ui])
					e.panel.activeUsersM.RLock()
					u := e.panel.activeUsers[arr]
					e.panel.activeUsersM.RUnlock()
					if u != nil && lr.IntN(4) == 0 {
						e.panel.TerminateActiveUser(u, "storm")
					}
				}
			}
		}()
	}
	go func() { wg.Wait(); close(done) }()
	k, d := waitOrClassify(done, 60*time.Second)
	r.Count("storm_operations", int64(workers*ops))
	r.Count("storm_uploads_failed_by_injection", e.uploadsFailed.Load())
	if k != "" {
		return k, d
	}
	// quiescent: the storm is over
	if v := e.ownership(); v != "" {
		return "ownership", "after a storm of concurrent bookkeeping calls: " + v
	}
	r.Count("ownership_checks", 1)
	return "", ""
}

// c17Forced runs one of the named interleavings.
func c17Forced(r *vk.Reporter, rng *mrand.Rand, which string) (string, string) {
	e := newC17Env(rng, 2, 10)
	defer e.close()
	switch which {
	case "two-upload-rounds":
		// A = updateUsageQueue parked between its two lock acquisitions; B = commitUpdate of an
		// overlapping round; then A continues
		e.admit(0, 1)
		e.admit(1, 1)
		e.panel.updateUsageQueue() // something is queued so that commitUpdate walks the queue
		parked := make(chan struct{})
		release := make(chan struct{})
		first := true
		var hm sync.Mutex
		verifhook.Set("panel.updateUsageQueue.mid", func() {
			hm.Lock()
			f := first
			first = false
			hm.Unlock()
			if f {
				close(parked)
				<-release
			}
		})
		defer verifhook.Set("panel.updateUsageQueue.mid", nil)
		done := make(chan struct{})
		var wg sync.WaitGroup
		wg.Add(2)
		go func() { defer wg.Done(); e.panel.updateUsageQueue() }()
		<-parked
		bDone := make(chan struct{})
		go func() { defer wg.Done(); e.panel.commitUpdate(); close(bDone) }()
		// let B run until it is blocked or finished
		for i := 0; i < 200; i++ {
			select {
			case <-bDone:
				i = 1000
			default:
				time.Sleep(time.Millisecond)
			}
		}
		close(release)
		go func() { wg.Wait(); close(done) }()
		r.Count("forced_overlapping_rounds", 1)
		if k, d := waitOrClassify(done, 5*time.Second); k != "" {
			return k, "usage collection (updateUsageQueue) overlapped by the commit of another upload round: " + d
		}
	case "upload-fails":
		// a status upload fails (user manager unreachable) while a limited user has usage queued; every
		// later bookkeeping call must still complete
		u0, _ := e.admit(0, 1)
		u1, _ := e.admit(1, 1)
		if u0 == nil || u1 == nil {
			return "inconclusive", "users not admitted"
		}
		u0.valve.AddTx(1000)
		u1.valve.AddRx(500)
		e.panel.updateUsageQueue()
		e.failEvery.Store(1)
		err := e.panel.commitUpdate()
		e.failEvery.Store(0)
		if err == nil || e.uploadsFailed.Load() == 0 {
			return "inconclusive", "the injected upload failure was not reached"
		}
		r.Count("forced_upload_failures", 1)
		done := make(chan struct{})
		go func() {
			u0.valve.AddTx(7)
			e.panel.updateUsageQueue()
			e.panel.commitUpdate()
			u0.CloseSession(1, "test")
			e.panel.TerminateActiveUser(u1, "test")
			e.panel.updateUsageQueue()
			e.panel.commitUpdate()
			close(done)
		}()
		if k, d := waitOrClassify(done, 5*time.Second); k != "" {
			return k, "bookkeeping after a failed status upload (next upload round, CloseSession of a last session, TerminateActiveUser): " + d
		}
	case "admit-vs-last-close", "terminate-vs-readmit":
		return c17ForcedDispatch(r, rng, which)
	}
	return "", ""
}

func TestVerif_C17(t *testing.T) {
	r := vk.Open()
	defer r.Close()
	for i := 0; i < r.Pick(40, 3000); i++ {
		id := fmt.Sprintf("storm-%d", i)
		if !r.Mine(id) {
			continue
		}
		rng := r.Rand("c17", i)
		w := []int{16, 32, 64}[i%3]
		r.Case(id, map[string]any{"workers": w})
		k, d := c17Storm(r, rng, w, r.Pick(60, 200))
		r.Count("evaluations", 1)
		r.Distinct("cases", vk.Hash64("storm", i))
		switch k {
		case "":
			r.Pass(id)
		case "inconclusive":
			r.Inconclusive(id, d)
		default:
			r.Violation(id, "C17:"+k, d, nil)
		}
	}
	for i, which := range []string{"two-upload-rounds", "admit-vs-last-close", "terminate-vs-readmit", "two-upload-rounds", "admit-vs-last-close", "terminate-vs-readmit", "upload-fails", "upload-fails"} {
		id := fmt.Sprintf("forced/%s/%d", which, i)
		if !r.Mine(id) {
			continue
		}
		r.Case(id, which)
		k, d := c17Forced(r, r.Rand("c17f", i), which)
		r.Count("evaluations", 1)
		r.Distinct("cases", vk.Hash64("forced", which, i))
		if i < 3 {
			r.Sample(map[string]any{"forced_interleaving": which})
		}
		switch k {
		case "":
			r.Pass(id)
		case "inconclusive":
			r.Inconclusive(id, d)
		default:
			r.Violation(id, "C17:"+k, d, nil)
		}
	}
}

// c17ForcedDispatch forces the two admission races through the real dispatchConnection: real
// client handshakes over hnet against the real Serve loop (no bubble: the hooks park goroutines on
// channels and are released after a short real-time pause, which only affects how long the window
// is held open, never the verdict).
func c17ForcedDispatch(r *vk.Reporter, rng *mrand.Rand, which string) (string, string) {
	t := &testing.T{}
	g := newSrvRig(t, srvOpts{DB: true})
	defer g.cleanup()
	g.serve()
	go g.echoProxy()
	uid := randUID(rng)
	j := usermanager.JustInt64
	g.sta.Panel.Manager.WriteUserInfo(usermanager.UserInfo{UID: uid, SessionsCap: usermanager.JustInt32(10), UpRate: j(1 << 30), DownRate: j(1 << 30), UpCredit: j(1 << 40), DownCredit: j(1 << 40), ExpiryTime: j(time.Now().Unix() + 1e7)})
	type hs struct {
		sesh *mux.Session
		err  error
	}
	connect := func(sid uint32) chan hs {
		ch := make(chan hs, 1)
		cfg := cliCfg{UID: uid, Method: "shadowsocks", Enc: "aes-gcm", Transport: "direct", Browser: "firefox", NumConn: 1, SessionID: sid}
		_, remote, auth, err := g.clientConfigs(cfg)
		if err != nil {
			ch <- hs{nil, err}
			return ch
		}
		go func() {
			conn, _ := g.lis.Dial("tcp", "")
			tr := remote.Transport.CreateTransport()
			key, err := tr.Handshake(conn, auth)
			if err != nil {
				ch <- hs{nil, err}
				return
			}
			obf, _ := muxObfuscator(auth.EncryptionMethod, key)
			cs := muxSession(sid, obf)
			cs.AddConnection(tr)
			ch <- hs{cs, nil}
		}()
		return ch
	}
	wait := func(ch chan hs, what string) (*mux.Session, string) {
		select {
		case h := <-ch:
			if h.err != nil {
				return nil, what + ": " + h.err.Error()
			}
			return h.sesh, ""
		case <-time.After(60 * time.Second):
			return nil, what + ": handshake did not complete"
		}
	}
	echoOK := func(cs *mux.Session) bool {
		st, err := cs.OpenStream()
		if err != nil {
			return false
		}
		msg := vk.Datagram(17, 1, 300)
		st.Write(msg)
		st.SetReadDeadline(time.Now().Add(20 * time.Second))
		got := make([]byte, len(msg))
		n := 0
		for n < len(got) {
			k, err := st.Read(got[n:])
			if err != nil {
				return false
			}
			n += k
		}
		return string(got) == string(msg)
	}
	registered := func(sid uint32) (bool, string) {
		var arr [16]byte
		copy(arr[:], uid)
		g.sta.Panel.activeUsersM.RLock()
		u := g.sta.Panel.activeUsers[arr]
		g.sta.Panel.activeUsersM.RUnlock()
		if u == nil {
			return false, "the user is not registered in the panel"
		}
		u.sessionsM.RLock()
		ss := u.sessions[sid]
		u.sessionsM.RUnlock()
		if ss == nil || ss.IsClosed() {
			return false, "the user's registered record holds no live session under that id"
		}
		return true, ""
	}
	s1, e := wait(connect(1), "first session")
	if e != "" {
		return "harness", e
	}
	if !echoOK(s1) {
		return "harness", "echo on the first session failed"
	}
	parked := make(chan struct{})
	release := make(chan struct{})
	var once sync.Once
	park := func() {
		first := false
		once.Do(func() { first = true })
		if first {
			close(parked)
			<-release
		}
	}
	switch which {
	case "admit-vs-last-close":
		verifhook.Set("disp.userResolved", park)
		defer verifhook.Set("disp.userResolved", nil)
		ch := connect(2)
		select {
		case <-parked:
		case <-time.After(30 * time.Second):
			return "inconclusive", "hook disp.userResolved not reached"
		}
		s1.Close() // the user's last session closes: the record is deregistered
		deadline := time.Now().Add(20 * time.Second)
		for {
			var arr [16]byte
			copy(arr[:], uid)
			g.sta.Panel.activeUsersM.RLock()
			_, still := g.sta.Panel.activeUsers[arr]
			g.sta.Panel.activeUsersM.RUnlock()
			if !still || time.Now().After(deadline) {
				break
			}
			time.Sleep(5 * time.Millisecond)
		}
		close(release)
		s2, e := wait(ch, "connection parked during the close of the last session")
		r.Count("forced_admit_vs_last_close", 1)
		if e != "" {
			// refusing the connection is acceptable; losing track of a live session is not
			return "", ""
		}
		if echoOK(s2) {
			if ok, why := registered(2); !ok {
				return "orphan-after-last-close", "a connection resolved its user while that user's last session was being closed; its session (sid 2) is live (echo works) but " + why + ": usage is never reported and it cannot be terminated"
			}
		}
	case "terminate-vs-readmit":
		verifhook.Set("panel.Terminate.beforeDelete", park)
		defer verifhook.Set("panel.Terminate.beforeDelete", nil)
		var arr [16]byte
		copy(arr[:], uid)
		g.sta.Panel.activeUsersM.RLock()
		u := g.sta.Panel.activeUsers[arr]
		g.sta.Panel.activeUsersM.RUnlock()
		if u == nil {
			return "harness", "user not active"
		}
		tdone := make(chan struct{})
		go func() { g.sta.Panel.TerminateActiveUser(u, "forced"); close(tdone) }()
		select {
		case <-parked:
		case <-time.After(30 * time.Second):
			return "inconclusive", "hook panel.Terminate.beforeDelete not reached"
		}
		ch := connect(5)
		time.Sleep(50 * time.Millisecond)
		close(release)
		<-tdone
		s5, e := wait(ch, "connection arriving during termination")
		r.Count("forced_terminate_vs_readmit", 1)
		if e != "" {
			return "", ""
		}
		if echoOK(s5) {
			if ok, why := registered(5); !ok {
				return "orphan-after-terminate", "a connection arrived while its user was being terminated; its session (sid 5) is live (echo works) but " + why
			}
		}
	}
	return "", ""
}
