package server

// C14 (whole-system part) - datagrams through the real UDP front end of ck-client
// (client.RouteUDP over loopback UDP sockets), the real session and the real server, to a
// message-preserving proxy endpoint that echoes them. Real time, no bubble (kernel sockets):
// only integrity, at-most-once and per-source isolation are verdicts; loss is counted, and a run
// that lost everything is inconclusive.

import (
	"fmt"
	mrand "math/rand/v2"
	"net"
	"sync"
	"sync/atomic"
	"testing"
	"time"

	"github.com/cbeuw/Cloak/internal/client"
	mux "github.com/cbeuw/Cloak/internal/multiplex"
	vk "github.com/cbeuw/Cloak/internal/verifkit"
)

var udpEchoed atomic.Int64

type udpProxyDialer struct {
	mu    sync.Mutex
	ends  []net.Conn
	inner *recDialer
}

func (d *udpProxyDialer) Dial(network, address string) (net.Conn, error) {
	if network != "udp" {
		return d.inner.Dial(network, address)
	}
	a, b := vk.MsgPipe()
	d.mu.Lock()
	d.ends = append(d.ends, b)
	d.mu.Unlock()
	go func() { // the proxy server: echo every datagram
		buf := make([]byte, 70000)
		for {
			n, err := b.Read(buf)
			if err != nil {
				return
			}
			udpEchoed.Add(1)
			b.Write(buf[:n])
		}
	}()
	return a, nil
}

func TestVerif_C14UDP(t *testing.T) {
	r := vk.Open()
	defer r.Close()
	n := r.Pick(12, 120)
	for i := 0; i < n; i++ {
		id := fmt.Sprintf("udp-system-%d", i)
		if !r.Mine(id) {
			continue
		}
		rng := r.Rand("c14u", i)
		cfg := cliCfg{UID: randUID(rng), Method: "openvpn", Enc: encNames[i%4], Transport: "direct", Browser: "firefox", NumConn: []int{1, 2, 4, 0}[i%4], UDP: true, SessionID: rng.Uint32() / 2}
		nsock := 1 + rng.IntN(4)
		sizes := []int{20, 100, 1200, 1400, 1472, 4000, 8191, 8192}
		if i%3 == 0 {
			sizes = append(sizes, 8193, 9000, 12000, 16000)
		}
		r.Case(id, map[string]any{"cfg": cfg, "local_udp_sources": nsock, "sizes": sizes})
		var vkind, vdet string
		func() {
			g := newSrvRig(t, srvOpts{Bypass: [][]byte{cfg.UID}})
			defer g.cleanup()
			defer g.stopClients()
			g.sta.ProxyDialer = &udpProxyDialer{inner: g.sta.ProxyDialer.(*recDialer)}
			g.serve()
			_, remote, auth, err := g.clientConfigs(cfg)
			if err != nil {
				vkind, vdet = "config", err.Error()
				return
			}
			addrCh := make(chan *net.UDPAddr, 1)
			bind := func() (*net.UDPConn, error) {
				c, err := net.ListenUDP("udp", &net.UDPAddr{IP: net.IPv4(127, 0, 0, 1)})
				if err == nil {
					addrCh <- c.LocalAddr().(*net.UDPAddr)
				}
				return c, err
			}
			var sidMu sync.Mutex
			sid := cfg.SessionID
			go client.RouteUDP(bind, 30*time.Second, remote.Singleplex, func() *mux.Session {
				a := auth
				sidMu.Lock()
				sid++
				a.SessionId = sid
				sidMu.Unlock()
				return client.MakeSession(remote, a, g.dialerFor("direct"))
			})
			var front *net.UDPAddr
			select {
			case front = <-addrCh:
			case <-time.After(10 * time.Second):
				vkind, vdet = "harness", "RouteUDP did not bind"
				return
			}
			var wg sync.WaitGroup
			var mu sync.Mutex
			sent, recvd, lost := 0, 0, 0
			for s := 0; s < nsock; s++ {
				s := s
				seed := rng.Uint64()
				wg.Add(1)
				go func() {
					defer wg.Done()
					lr := mrand.New(mrand.NewPCG(seed, 14))
					sock, err := net.DialUDP("udp", nil, front)
					if err != nil {
						return
					}
					defer sock.Close()
					want := map[string]int{}
					cnt := 6 + lr.IntN(10)
					for k := 0; k < cnt; k++ {
						sz := sizes[lr.IntN(len(sizes))]
						msg := vk.Datagram(uint32(1000*i+s), uint32(k), sz)
						want[string(msg)]++
						sock.Write(msg)
						mu.Lock()
						sent++
						mu.Unlock()
						time.Sleep(time.Duration(1+lr.IntN(4)) * time.Millisecond)
					}
					got := map[string]int{}
					buf := make([]byte, 70000)
					first := true
					for {
						// generous wait for the first echo (the session has to be established, possibly on a
						// loaded machine), then a short idle timeout ends the collection
						wait := 2 * time.Second
						if first {
							wait = 45 * time.Second
						}
						first = false
						sock.SetReadDeadline(time.Now().Add(wait))
						n, err := sock.Read(buf)
						if err != nil {
							break
						}
						m := string(buf[:n])
						if want[m] == 0 {
							w, c, ok := vk.ParseDatagram(buf[:n])
							mu.Lock()
							if vkind == "" {
								vkind, vdet = "foreign-or-damaged-datagram", fmt.Sprintf("local UDP source %d received a %d-byte datagram that is not the echo of anything it sent (parses as writer %d counter %d, intact=%v): truncated, merged, split, corrupted or another source's data", s, n, w, c, ok)
							}
							mu.Unlock()
							return
						}
						got[m]++
						if got[m] > want[m] {
							mu.Lock()
							if vkind == "" {
								vkind, vdet = "duplicate-datagram", fmt.Sprintf("local UDP source %d received the echo of one datagram %d times (sent %d)", s, got[m], want[m])
							}
							mu.Unlock()
							return
						}
						mu.Lock()
						recvd++
						mu.Unlock()
					}
					mu.Lock()
					for m, w := range want {
						lost += w - got[m]
						if w-got[m] > 0 {
							r.Count(fmt.Sprintf("lost_size_%d_numconn_%d", len(m), cfg.NumConn), int64(w-got[m]))
						}
					}
					mu.Unlock()
				}()
			}
			wg.Wait()
			r.Count("datagrams_sent", int64(sent))
			r.Count("echoes_verified", int64(recvd))
			r.Count("datagrams_lost", int64(lost))
			r.Count("datagrams_reaching_proxy", udpEchoed.Swap(0))
			if vkind == "" && recvd == 0 {
				vkind, vdet = "inconclusive", "no echo at all came back through the UDP path"
			}
		}()
		r.Distinct("cases", vk.Hash64("udp", i))
		if i < 2 {
			r.Sample(map[string]any{"cfg": cfg, "local_udp_sources": nsock, "sizes": sizes})
		}
		switch vkind {
		case "":
			r.Pass(id)
		case "inconclusive":
			r.Inconclusive(id, vdet)
		default:
			r.Violation(id, "C14:udp-"+vkind, fmt.Sprintf("%s; cfg %+v", vdet, cfg), nil)
		}
	}
}
