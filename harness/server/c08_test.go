package server

// C08 - a captured handshake can never be replayed successfully.
// Model = the set of sealed identity blocks accepted so far; every acceptance by the real State
// (with its cleaner goroutine running on the bubble's virtual clock) is looked up in it.

import (
	"bytes"
	"encoding/base64"
	"encoding/binary"
	"fmt"
	mrand "math/rand/v2"
	"runtime"
	"sort"
	"sync"
	"sync/atomic"
	"testing"
	"time"

	"github.com/cbeuw/Cloak/internal/common"
	vk "github.com/cbeuw/Cloak/internal/verifkit"
)

// firstPacket lets the real client write its first packet and returns it without presenting it.
func (g *srvRig) firstPacket(c cliCfg) ([]byte, Transport, error) {
	_, remote, auth, err := g.clientConfigs(c)
	if err != nil {
		return nil, nil, err
	}
	p := g.net.NewPipe(vk.PipeOpts{NoCut: true})
	tr := remote.Transport.CreateTransport()
	done := make(chan struct{})
	go func() { defer close(done); tr.Handshake(p.A, auth) }()
	var conn = netConn(p.B)
	if c.Transport == "cdn" {
		tc, err := cdnTerminate(p.B)
		if err != nil {
			p.B.Close()
			<-done
			return nil, nil, err
		}
		conn = tc
	}
	buf := make([]byte, firstPacketSize)
	n, transport, _, err := readFirstPacket(conn, buf, 15*time.Second)
	conn.Close()
	p.A.Close()
	<-done
	tr.Close()
	if err != nil {
		return nil, nil, err
	}
	return append([]byte{}, buf[:n]...), transport, nil
}

type c08Pkt struct {
	first    []byte
	tr       Transport
	ts       int64 // embedded client timestamp (unix seconds)
	accepted int
	firstAcc time.Time
}

type c08Event struct {
	At     string `json:"at"`
	Packet int    `json:"packet"`
	Kind   string `json:"kind"` // create, present
	Result string `json:"result,omitempty"`
}

func c08History(t *testing.T, r *vk.Reporter, id string, kind string, rng *mrand.Rand) (vk_, vd string) {
	var log []c08Event
	p, leftover := vk.InBubble(t, func() {
		g := newSrvRig(t, srvOpts{})
		start := time.Now()
		rel := func() string { return time.Since(start).Round(time.Second).String() }
		var pkts []*c08Pkt
		create := func(offset time.Duration, transport string) int {
			c := cliCfg{UID: randUID(rng), Method: "shadowsocks", Enc: "plain", Transport: transport, Browser: []string{"firefox", "chrome", "safari"}[rng.IntN(3)], NumConn: 1, SessionID: rng.Uint32(), Offset: offset}
			first, tr, err := g.firstPacket(c)
			if err != nil {
				panic(fmt.Sprintf("harness: cannot create packet: %v", err))
			}
			pkts = append(pkts, &c08Pkt{first: first, tr: tr, ts: time.Now().Add(offset).Unix()})
			log = append(log, c08Event{rel(), len(pkts) - 1, "create(offset " + offset.String() + ")", ""})
			return len(pkts) - 1
		}
		present := func(k int) {
			pk := pkts[k]
			now := time.Now()
			_, _, err := AuthFirstPacket(append([]byte{}, pk.first...), pk.tr, g.sta)
			r.Count("presentations", 1)
			diff := pk.ts*1e9 - now.UnixNano()
			inWindow := diff > -180e9 && diff < 180e9
			res := "refused"
			if err == nil {
				res = "accepted"
			}
			log = append(log, c08Event{rel(), k, "present", res})
			if err == nil {
				pk.accepted++
				if pk.accepted > 1 && vk_ == "" {
					vk_ = "replay-accepted"
					vd = fmt.Sprintf("packet %d was accepted a second time at T+%s (first accepted at T+%s; replay-cache clean-ups run every 12 h from T; embedded timestamp still in window: %v)", k, rel(), pk.firstAcc.Sub(start).Round(time.Second), inWindow)
				}
				if pk.accepted == 1 {
					pk.firstAcc = now
				}
			} else if pk.accepted == 0 && inWindow && vk_ == "" {
				vk_ = "fresh-packet-refused"
				vd = fmt.Sprintf("first presentation of a genuine packet inside the window was refused at T+%s: %v", rel(), err)
			}
		}
		sleepUntil := func(d time.Duration) {
			if w := d - time.Since(start); w > 0 {
				time.Sleep(w)
			}
		}
		switch kind {
		case "scan-race":
			// a handshake arrives while the clean-up is in the middle of its scan
			k0 := create(0, "direct")
			present(k0) // something to scan
			tick := 12 * time.Hour
			sleepUntil(tick - 2*time.Second)
			parked, release := make(chan struct{}), make(chan struct{})
			var once sync.Once
			g.mu.Lock()
			g.nowHook = func() {
				if calledFrom("UsedRandomCleaner") {
					first := false
					once.Do(func() { first = true })
					if first {
						close(parked)
						<-release
					}
				}
			}
			g.mu.Unlock()
			k1 := create(0, "direct")
			sleepUntil(tick + time.Second)
			select {
			case <-parked:
				r.Count("forced_cleanup_scan_windows", 1)
				pdone := make(chan struct{})
				go func() { present(k1); close(pdone) }()
				for i := 0; i < 20000; i++ { // let the presenter reach the replay memory's lock
					runtime.Gosched()
				}
				close(release)
				<-pdone
			default:
				close(release) // the clean-up did not read the clock inside its scan on this tree
				present(k1)
			}
			g.mu.Lock()
			g.nowHook = nil
			g.mu.Unlock()
			time.Sleep(2 * time.Second)
			present(k1) // the same packet again: must be recognised
			present(k0)
		case "flood", "flood-big":
			// between the capture and its replay, tens of thousands of other first packets (distinct
			// ephemeral keys, none of them authentic - anybody can send those) reach the server
			k0 := create(time.Duration(rng.IntN(100))*time.Second, "direct")
			present(k0)
			present(k0)
			tmpl := pkts[k0].first
			ch, err := vk.ParseClientHello(tmpl[5:])
			if err != nil {
				panic(err)
			}
			at := bytes.Index(tmpl, ch.Random)
			junkN := 3000
			if kind == "flood-big" {
				junkN = 70000 // more than 2^16 distinct keys inside one acceptance window
			}
			for j := 0; j < junkN; j++ {
				junk := append([]byte{}, tmpl...)
				for b := 0; b < 32; b++ {
					junk[at+b] = byte(rng.Uint32())
				}
				binary.BigEndian.PutUint32(junk[at:], uint32(j)) // distinct for sure
				junk[at+31] &= 0x7f
				AuthFirstPacket(junk, pkts[k0].tr, g.sta)
				if j%1000 == 999 {
					time.Sleep(100 * time.Millisecond)
				}
			}
			r.Count("flood_packets", int64(junkN))
			sleepUntil(10 * time.Second)
			present(k0) // still inside its window: must be recognised
			time.Sleep(60 * time.Second)
			present(k0)
		case "boundary":
			// first sightings just before a clean-up tick, re-presentations just after it
			tick := time.Duration(12*(1+rng.IntN(3))) * time.Hour
			befores := []int{1, 10, 179, 180, 181, 359, 361}
			afters := []int{0, 1, 179, 359}
			type plan struct {
				k      int
				before int
			}
			var plans []plan
			sort.Sort(sort.Reverse(sort.IntSlice(befores)))
			for _, b := range befores {
				sleepUntil(tick - time.Duration(b)*time.Second)
				for _, off := range []time.Duration{-179 * time.Second, 0, 179 * time.Second, 150 * time.Second} {
					k := create(off, []string{"direct", "cdn"}[rng.IntN(2)])
					present(k)
					plans = append(plans, plan{k, b})
				}
			}
			for _, a := range afters {
				sleepUntil(tick + time.Duration(a)*time.Second + time.Millisecond)
				for _, pl := range plans {
					present(pl.k)
				}
			}
		default:
			// random history over three virtual days
			n := 50 + rng.IntN(150)
			for i := 0; i < n; i++ {
				switch rng.IntN(5) {
				case 0, 1:
					off := time.Duration(rng.Int64N(int64(358*time.Second))) - 179*time.Second
					k := create(off, []string{"direct", "cdn"}[rng.IntN(2)])
					if rng.IntN(4) != 0 {
						present(k)
					}
				case 2, 3:
					if len(pkts) > 0 {
						// prefer recent packets (still inside their window)
						k := len(pkts) - 1 - rng.IntN(min(len(pkts), 6))
						present(k)
					}
				default:
				}
				var gap time.Duration
				switch rng.IntN(6) {
				case 0:
					gap = time.Duration(rng.Int64N(int64(13 * time.Hour)))
				case 1:
					// jump close to the next clean-up tick
					el := time.Since(start)
					next := (el/(12*time.Hour) + 1) * 12 * time.Hour
					gap = next - el - time.Duration(rng.IntN(200))*time.Second
				case 2:
					gap = time.Duration(181+rng.IntN(180)) * time.Second
				default:
					gap = time.Duration(rng.Int64N(int64(200 * time.Second)))
				}
				if gap > 0 {
					time.Sleep(gap)
				}
			}
		}
		r.Count("packets", int64(len(pkts)))
		r.Max("virtual_hours", int64(time.Since(start).Hours()))
	})
	if p != nil && !leftover && vk_ == "" {
		vk_, vd = "panic", fmt.Sprint(p)
	}
	if vk_ != "" {
		tail := log
		if len(tail) > 40 {
			tail = tail[len(tail)-40:]
		}
		vd += fmt.Sprintf("; last events: %+v", tail)
	}
	r.Sample(map[string]any{"history_kind": kind, "events": len(log), "first_events": log[:min(len(log), 6)]})
	return
}

// c08Concurrent: N goroutines present one packet at once; exactly one may be accepted.
func c08Concurrent(t *testing.T, r *vk.Reporter, rng *mrand.Rand, n int, rounds int) (vk_, vd string) {
	var g *srvRig
	var pk []byte
	var tr Transport
	var at time.Time
	vk.InBubble(t, func() {
		g = newSrvRig(t, srvOpts{})
		at = time.Now()
		var err error
		pk, tr, err = g.firstPacket(cliCfg{UID: randUID(rng), Method: "shadowsocks", Enc: "plain", Transport: "direct", Browser: "firefox", NumConn: 1})
		if err != nil {
			panic(err)
		}
	})
	if pk == nil {
		return "harness", "could not create packet"
	}
	// a packet is bound to its ephemeral key; to get `rounds` independent races the same bytes are
	// presented to `rounds` fresh states (each with an empty replay memory)
	for round := 0; round < rounds; round++ {
		var calls atomic.Int64
		sta := freshState(&g.pv, at)
		sta.WorldState = common.WorldState{Rand: sta.WorldState.Rand, Now: func() time.Time {
			// widen whatever window exists around the clock read
			if calls.Add(1)%2 == 0 {
				runtime.Gosched()
			}
			return at
		}}
		var wg sync.WaitGroup
		var acc atomic.Int64
		gate := make(chan struct{})
		for i := 0; i < n; i++ {
			wg.Add(1)
			go func() {
				defer wg.Done()
				b := append([]byte{}, pk...)
				<-gate
				if _, _, err := AuthFirstPacket(b, tr, sta); err == nil {
					acc.Add(1)
				}
			}()
		}
		close(gate)
		wg.Wait()
		r.Count("presentations", int64(n))
		r.Count("concurrent_rounds", 1)
		if a := acc.Load(); a != 1 {
			return "concurrent-double-accept", fmt.Sprintf("%d simultaneous presentations of one packet to one state: %d were accepted (round %d)", n, a, round)
		}
	}
	return "", ""
}

func TestVerif_C08(t *testing.T) {
	r := vk.Open()
	defer r.Close()
	// (a) histories
	for i := 0; i < r.Pick(24, 1600); i++ {
		kind := "random"
		if i%3 == 0 {
			kind = "boundary"
		}
		if i%6 == 1 {
			kind = "scan-race"
		}
		if i%12 == 5 {
			kind = "flood"
			if r.Thorough() && i%60 == 5 {
				kind = "flood-big"
			}
		}
		id := fmt.Sprintf("history/%s/%d", kind, i)
		if !r.Mine(id) {
			continue
		}
		r.Case(id, kind)
		k, d := c08History(t, r, id, kind, r.Rand("c08h", i))
		r.Count("evaluations", 1)
		r.Distinct("cases", vk.Hash64("h", i))
		if k != "" {
			r.Violation(id, "C08:"+k, d, nil)
		} else {
			r.Pass(id)
		}
	}
	// (b) simultaneous presentations
	for i, n := range []int{2, 8, 64, 16, 3, 32} {
		id := fmt.Sprintf("concurrent/n=%d", n)
		if !r.Mine(id) {
			continue
		}
		r.Case(id, n)
		k, d := c08Concurrent(t, r, r.Rand("c08c", i), n, r.Pick(2500, 80000)/n+50)
		r.Count("evaluations", 1)
		r.Distinct("cases", vk.Hash64("c", n))
		if k != "" {
			r.Violation(id, "C08:"+k, d, nil)
		} else {
			r.Pass(id)
		}
	}
	// (c) altered copies that still authenticate must be recognised as replays
	bases := []cliCfg{{Browser: "firefox", Transport: "direct"}, {Browser: "chrome", Transport: "direct"}, {Transport: "cdn"}}
	for bi, base := range bases {
		for part := 0; part < 4; part++ {
			id := fmt.Sprintf("variants/%s-%s/part%d", base.Transport, base.Browser, part)
			if !r.Mine(id) {
				continue
			}
			r.Case(id, nil)
			rng := r.Rand("c08v", bi, part)
			var gp *genuine
			var g *srvRig
			vk.InBubble(t, func() {
				g = newSrvRig(t, srvOpts{})
				c := base
				c.UID, c.Method, c.Enc, c.NumConn, c.SessionID = randUID(rng), "shadowsocks", "aes-gcm", 1, rng.Uint32()
				var err error
				gp, err = g.capture(c)
				if err != nil {
					panic(err)
				}
			})
			if gp == nil {
				r.Inconclusive(id, "capture failed")
				continue
			}
			viol := map[string]string{}
			try := func(mod []byte, what string) {
				r.Count("presentations", 1)
				// does the variant still authenticate on its own?
				if _, _, err := AuthFirstPacket(append([]byte{}, mod...), gp.tr, freshState(&g.pv, gp.at)); err != nil {
					return
				}
				r.Count("variants_that_still_authenticate", 1)
				seen := freshState(&g.pv, gp.at)
				if _, _, err := AuthFirstPacket(append([]byte{}, gp.first...), gp.tr, seen); err != nil {
					viol["genuine-rejected"] = "genuine packet rejected: " + err.Error()
					return
				}
				if _, _, err := AuthFirstPacket(append([]byte{}, mod...), gp.tr, seen); err == nil {
					_, onlyTop := gp.sealedDiff(mod)
					key := "altered-copy-accepted"
					if onlyTop {
						key = "x25519-top-bit"
					}
					if _, ok := viol[key]; !ok {
						viol[key] = fmt.Sprintf("%s: the altered copy carries the same sealed identity, authenticates, and was accepted by a server that had already accepted the original", what)
					}
				}
			}
			nbits := len(gp.first) * 8
			stride := r.Pick(2, 1)
			for b := part; b < nbits; b += 4 * stride {
				mod := append([]byte{}, gp.first...)
				mod[b/8] ^= 1 << uint(b%8)
				try(mod, fmt.Sprintf("bit %d of byte %d flipped in a %d-byte %s packet", b%8, b/8, len(gp.first), base.Transport))
			}
			// the top bit of the ephemeral key is always tried (TLS: a known offset)
			if gp.topBit >= 0 {
				mod := append([]byte{}, gp.first...)
				mod[gp.topBit] ^= 0x80
				try(mod, "top bit of the 32-byte ephemeral key (ignored by X25519) flipped")
			}
			for k := 0; k < r.Pick(300, 8000); k++ {
				mod := append([]byte{}, gp.first...)
				for j := 0; j < 1+rng.IntN(4); j++ {
					mod[rng.IntN(len(mod))] ^= byte(1 << uint(rng.IntN(8)))
				}
				try(mod, "random multi-bit variant")
			}
			if base.Transport == "cdn" && len(gp.sealed) == 1 {
				// the top bit of the ephemeral key inside the base64 hidden header
				rg := gp.sealed[0]
				if raw, err := base64.StdEncoding.DecodeString(string(gp.first[rg[0]:rg[1]])); err == nil && len(raw) == 96 {
					raw[31] ^= 0x80
					mod := append(append(append([]byte{}, gp.first[:rg[0]]...), base64.StdEncoding.EncodeToString(raw)...), gp.first[rg[1]:]...)
					try(mod, "top bit of the 32-byte ephemeral key (ignored by X25519) flipped inside the hidden header")
				}
			}
			if base.Transport == "cdn" {
				// header-name case and spacing variants of the HTTP request
				s := string(gp.first)
				for _, v := range []string{replaceOnce(s, "Hidden:", "hidden:"), replaceOnce(s, "Hidden:", "HIDDEN:"), replaceOnce(s, "Hidden: ", "Hidden:"), replaceOnce(s, "Hidden: ", "Hidden:  "), replaceOnce(s, "\r\nHidden", "\r\nX-Other: 1\r\nHidden")} {
					try([]byte(v), "HTTP header spelling variant")
				}
			}
			r.Count("evaluations", 1)
			r.Distinct("cases", vk.Hash64("v", bi, part))
			if len(viol) == 0 {
				r.Pass(id)
			}
			for k, d := range viol {
				r.Violation(id, "C08:"+k, d, nil)
			}
		}
	}
}

func replaceOnce(s, old, new string) string {
	for i := 0; i+len(old) <= len(s); i++ {
		if s[i:i+len(old)] == old {
			return s[:i] + new + s[i+len(old):]
		}
	}
	return s
}
