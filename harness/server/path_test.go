package server

// Whole-path rig (C01 part 2, C03 part 2): application -> client.RouteTCP -> ck-client session ->
// hostile network -> real Serve/serveSession -> proxy server, all in one bubble. The application
// and the proxy server exchange tagged generator bytes in both directions; after the application
// has read everything it closes its connection and the proxy side must see exactly the bytes
// written followed by end-of-stream (and vice versa).

import (
	"encoding/binary"
	"fmt"
	"io"
	mrand "math/rand/v2"
	"sync"
	"testing"
	"time"

	"github.com/cbeuw/Cloak/internal/client"
	mux "github.com/cbeuw/Cloak/internal/multiplex"
	vk "github.com/cbeuw/Cloak/internal/verifkit"
)

type pathStream struct {
	Tag     uint64 `json:"tag"`
	Up      []int  `json:"up_writes"`
	Down    []int  `json:"down_writes"`
	CloseBy string `json:"closed_by"` // app, proxy
	// Delay: the application connects at once but says nothing for this long (a pre-connected or
	// slow client); other connections arrive and talk meanwhile
	Delay      time.Duration `json:"first_write_after,omitempty"`
	mu         sync.Mutex
	upGot      int64
	downGot    int64
	errs       []string
	proxyEOF   bool // proxy side saw end-of-stream after the bytes
	appEOF     bool
	proxyExtra bool
}

func (s *pathStream) fail(f string, a ...any) {
	s.mu.Lock()
	if len(s.errs) < 3 {
		s.errs = append(s.errs, fmt.Sprintf(f, a...))
	}
	s.mu.Unlock()
}

func psum(a []int) int64 {
	var t int64
	for _, v := range a {
		t += int64(v)
	}
	return t
}

func pathFill(tag uint64, totalUp, totalDown int64, off int64, buf []byte) {
	for i := range buf {
		o := off + int64(i)
		switch {
		case o < 8:
			buf[i] = byte(tag >> (56 - 8*uint(o)))
		case o < 16:
			buf[i] = byte(uint64(totalUp) >> (56 - 8*uint(o-8)))
		case o < 24:
			buf[i] = byte(uint64(totalDown) >> (56 - 8*uint(o-16)))
		default:
			buf[i] = vk.GenByte(tag, o)
		}
	}
}

// pathRead verifies bytes [start, total) of stream tag and then expects end-of-stream when
// wantEOF (the peer closes after its last byte). Returns whether EOF/err was seen after the bytes.
func pathRead(rd io.Reader, tag uint64, tu, td int64, total, start int64, rng *mrand.Rand, got *int64, mu *sync.Mutex, fail func(string, ...any), waitEnd bool) (ended bool) {
	buf := make([]byte, 16+rng.IntN(40000))
	off := start
	for off < total {
		n, err := rd.Read(buf[:1+rng.IntN(len(buf))])
		if n > 0 {
			if off+int64(n) > total {
				fail("stream %#x: received %d bytes beyond the %d written", tag, off+int64(n)-total, total)
				return false
			}
			chk := make([]byte, n)
			pathFill(tag, tu, td, off, chk)
			for i := 0; i < n; i++ {
				if chk[i] != buf[i] {
					fail("stream %#x: byte at offset %d is %#x, the writer wrote %#x", tag, off+int64(i), buf[i], chk[i])
					return false
				}
			}
			off += int64(n)
			mu.Lock()
			*got = off
			mu.Unlock()
		}
		if err != nil {
			if off < total {
				fail("stream %#x: read ended (%v) after %d of %d bytes", tag, err, off, total)
			}
			return off == total
		}
	}
	if !waitEnd {
		return false
	}
	n, err := rd.Read(buf[:16])
	if n > 0 {
		fail("stream %#x: %d bytes arrived after the %d bytes that were written", tag, n, total)
		return false
	}
	return err != nil
}

type pathCase struct {
	Cfg      cliCfg        `json:"cfg"`
	Streams  []*pathStream `json:"-"`
	NStreams int           `json:"streams"`
	Sample   *pathStream   `json:"sample_stream"`
	Seg      string        `json:"segmentation"`
}

func pathPlan(rng *mrand.Rand, n int, budget int, closeFocus bool) []*pathStream {
	sizes := []int{1, 2, 13, 1000, 16131, 16132, 16133, 48403, 10240, 10241}
	var out []*pathStream
	for i := 0; i < n; i++ {
		s := &pathStream{Tag: rng.Uint64() | 1}
		mk := func(min int) []int {
			var w []int
			tot := 0
			for k := 0; k < 1+rng.IntN(5) || tot < min; k++ {
				sz := sizes[rng.IntN(len(sizes))]
				if rng.IntN(3) == 0 {
					sz = 1 + rng.IntN(6000)
				}
				if tot+sz > budget/n && tot >= min {
					break
				}
				if tot+sz > budget/n {
					sz = 1 + rng.IntN(50)
				}
				w = append(w, sz)
				tot += sz
			}
			return w
		}
		s.Up = mk(24)
		s.Down = mk(1)
		if closeFocus && rng.IntN(3) == 0 {
			s.Down = nil
		}
		s.CloseBy = []string{"app", "proxy"}[rng.IntN(2)]
		if rng.IntN(3) == 0 {
			s.Delay = time.Duration(1+rng.IntN(8000)) * time.Millisecond
		}
		if len(s.Down) == 0 {
			s.CloseBy = "app"
		}
		out = append(out, s)
	}
	return out
}

func pathRun(t *testing.T, r *vk.Reporter, id string, c *pathCase) (kind, detail string) {
	rng := r.Rand("path", id)
	var vmu sync.Mutex
	setV := func(k, d string) {
		vmu.Lock()
		if kind == "" {
			kind, detail = k, d
		}
		vmu.Unlock()
	}
	p, leftover := vk.InBubble(t, func() {
		g := newSrvRig(t, srvOpts{Bypass: [][]byte{c.Cfg.UID}})
		defer g.cleanup()
		defer g.stopClients()
		segSeed := rng.Uint64()
		g.lis.OnDial = func(i int) vk.PipeOpts {
			o := vk.PipeOpts{NoCut: true, Name: "ck"}
			switch c.Seg {
			case "random":
				o.Seg[0], o.Seg[1] = vk.SegRandom(mrand.New(mrand.NewPCG(segSeed, uint64(i)))), vk.SegRandom(mrand.New(mrand.NewPCG(segSeed, uint64(i)+99)))
			case "small":
				o.Seg[0], o.Seg[1] = vk.SegSmall(mrand.New(mrand.NewPCG(segSeed, uint64(i)))), vk.SegSmall(mrand.New(mrand.NewPCG(segSeed, uint64(i)+99)))
			}
			return o
		}
		g.serve()
		plans := map[uint64]*pathStream{}
		for _, s := range c.Streams {
			plans[s.Tag] = s
		}
		// proxy server
		go func() {
			for {
				conn, err := g.proxyL.Accept()
				if err != nil {
					return
				}
				go func() {
					hdr := make([]byte, 24)
					if _, err := io.ReadFull(conn, hdr); err != nil {
						setV("proxy-header-unreadable", fmt.Sprintf("the proxy server could not read the first 24 bytes of a relayed connection: %v", err))
						return
					}
					tag := binary.BigEndian.Uint64(hdr)
					s := plans[tag]
					if s == nil || int64(binary.BigEndian.Uint64(hdr[8:])) != psum(s.Up) {
						setV("corrupt-header", fmt.Sprintf("a relayed connection starts with bytes no application wrote (tag %#x)", tag))
						return
					}
					s.mu.Lock()
					s.upGot = 24
					s.mu.Unlock()
					lr := mrand.New(mrand.NewPCG(tag, 5))
					tu, td := psum(s.Up), psum(s.Down)
					wdone := make(chan struct{})
					go func() {
						defer close(wdone)
						var off int64
						for _, sz := range s.Down {
							b := make([]byte, sz)
							pathFill(tag|1<<63, tu, td, off, b)
							if _, err := conn.Write(b); err != nil {
								s.fail("proxy server: write of %d bytes at offset %d failed: %v", sz, off, err)
								return
							}
							off += int64(sz)
						}
					}()
					ended := pathRead(conn, tag, tu, td, tu, 24, lr, &s.upGot, &s.mu, s.fail, s.CloseBy == "app")
					<-wdone
					s.mu.Lock()
					s.proxyEOF = ended
					s.mu.Unlock()
					if s.CloseBy == "proxy" {
						conn.Close()
					}
				}()
			}
		}()
		// ck-client in front of the application
		_, remote, auth, err := g.clientConfigs(c.Cfg)
		if err != nil {
			setV("config", err.Error())
			return
		}
		appL := g.net.Listen("127.0.0.1:1984")
		var sidMu sync.Mutex
		nextSid := c.Cfg.SessionID
		go client.RouteTCP(appL, 300*time.Second, remote.Singleplex, func() *mux.Session {
			a := auth
			sidMu.Lock()
			nextSid++
			a.SessionId = nextSid
			sidMu.Unlock()
			return client.MakeSession(remote, a, g.dialerFor(c.Cfg.Transport))
		})
		// applications
		for _, s := range c.Streams {
			s := s
			conn, err := appL.Dial("tcp", "")
			if err != nil {
				setV("harness", err.Error())
				return
			}
			tu, td := psum(s.Up), psum(s.Down)
			go func() {
				var off int64
				if s.Delay > 0 {
					time.Sleep(s.Delay)
				}
				for _, sz := range s.Up {
					b := make([]byte, sz)
					pathFill(s.Tag, tu, td, off, b)
					if _, err := conn.Write(b); err != nil {
						s.fail("application: write of %d bytes at offset %d failed: %v", sz, off, err)
						return
					}
					off += int64(sz)
				}
			}()
			go func() {
				lr := mrand.New(mrand.NewPCG(s.Tag, 9))
				ended := pathRead(conn, s.Tag|1<<63, tu, td, td, 0, lr, &s.downGot, &s.mu, s.fail, s.CloseBy == "proxy")
				s.mu.Lock()
				s.appEOF = ended
				s.mu.Unlock()
				if s.CloseBy == "app" {
					// close only once the proxy has everything: wait until the upstream has drained
					for k := 0; k < 2000; k++ {
						s.mu.Lock()
						done := s.upGot >= tu || len(s.errs) > 0
						s.mu.Unlock()
						if done {
							break
						}
						time.Sleep(10 * time.Millisecond)
					}
					conn.Close()
				}
			}()
		}
		vk.Wait()
		time.Sleep(60 * time.Second)
		vk.Wait()
		for _, s := range c.Streams {
			s.mu.Lock()
			tu, td := psum(s.Up), psum(s.Down)
			switch {
			case len(s.errs) > 0:
				setV("wrong-bytes", s.errs[0])
			case s.upGot != tu || s.downGot != td:
				setV("lost-bytes", fmt.Sprintf("at quiescence stream %#x has delivered %d of %d bytes to the proxy server and %d of %d to the application", s.Tag, s.upGot, tu, s.downGot, td))
			case s.CloseBy == "app" && !s.proxyEOF:
				setV("no-end-of-stream", fmt.Sprintf("the application wrote %d bytes and closed its connection; the proxy server read all bytes but never saw the end of the stream", tu))
			case s.CloseBy == "proxy" && !s.appEOF:
				setV("no-end-of-stream", fmt.Sprintf("the proxy server wrote %d bytes and closed; the application read all bytes but never saw the end of the stream", td))
			}
			r.Count("bytes_checked", s.upGot+s.downGot)
			s.mu.Unlock()
		}
		r.Count("streams", int64(len(c.Streams)))
	})
	if p != nil && !leftover && kind == "" {
		kind, detail = "panic", fmt.Sprint(p)
	}
	return
}

func pathCases(r *vk.Reporter, name string, n int, closeFocus bool, f func(id string, c *pathCase)) {
	for i := 0; i < n; i++ {
		id := fmt.Sprintf("%s-%d", name, i)
		rng := r.Rand(name, i)
		c := &pathCase{}
		c.Cfg = cliCfg{UID: randUID(rng), Method: "shadowsocks", Enc: encNames[i%4], Transport: []string{"direct", "direct", "cdn"}[i%3], Browser: []string{"chrome", "firefox", "safari"}[rng.IntN(3)],
			NumConn: []int{0, 1, 2, 4, 8}[(i/4)%5], SessionID: rng.Uint32() / 2}
		ns := 1 + rng.IntN(6)
		if i%5 == 4 {
			ns = 10 + rng.IntN(20)
		}
		c.Seg = []string{"all", "random", "small"}[rng.IntN(3)]
		c.Streams = pathPlan(rng, ns, 1<<19, closeFocus)
		c.NStreams = ns
		c.Sample = c.Streams[0]
		if !r.Mine(id) {
			continue
		}
		r.Case(id, c)
		f(id, c)
		r.Distinct("cases", vk.Hash64(name, c.Cfg, ns, c.Sample.Up, c.Sample.Down, c.Seg))
		if i < 2 {
			r.Sample(c)
		}
	}
}

func TestVerif_C01Path(t *testing.T) {
	r := vk.Open()
	defer r.Close()
	pathCases(r, "path", r.Pick(48, 1500), false, func(id string, c *pathCase) {
		k, d := pathRun(t, r, id, c)
		if k != "" && k != "no-end-of-stream" {
			r.Violation(id, "C01:path-"+k, fmt.Sprintf("%s; whole path with %+v, %d streams", d, c.Cfg, c.NStreams), c)
		} else {
			r.Pass(id)
		}
	})
}

func TestVerif_C03Path(t *testing.T) {
	r := vk.Open()
	defer r.Close()
	pathCases(r, "close", r.Pick(48, 1500), true, func(id string, c *pathCase) {
		k, d := pathRun(t, r, id, c)
		if k != "" {
			r.Violation(id, "C03:path-"+k, fmt.Sprintf("%s; whole path with %+v, %d streams", d, c.Cfg, c.NStreams), c)
		} else {
			r.Pass(id)
		}
	})
}
