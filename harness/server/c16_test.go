package server

// C16 - usage is charged exactly once and exhausted or expired users are cut off.
// Whole system in a bubble (the one-minute usage uploads simply happen): conservation check
// between the wire tap (record payload bytes per user and direction, handshake flights excluded)
// and the credit read back from the user database.

import (
	"fmt"
	"io"
	mrand "math/rand/v2"
	"runtime"
	"sort"
	"sync"
	"sync/atomic"
	"testing"
	"time"

	"github.com/cbeuw/Cloak/internal/client"
	mux "github.com/cbeuw/Cloak/internal/multiplex"
	"github.com/cbeuw/Cloak/internal/server/usermanager"
	"github.com/cbeuw/Cloak/internal/verifhook"
	vk "github.com/cbeuw/Cloak/internal/verifkit"
)

type c16Sess struct {
	sid   uint32
	cs    *mux.Session
	st    *mux.Stream // idle stream that keeps the session (and the user) active
	pipes []*vk.Pipe
}

type c16User struct {
	idx      int
	uid      []byte
	bypass   bool
	sessions map[uint32]*c16Sess
	allPipes []*vk.Pipe
	// model
	upBase, downBase   int64 // credit as last written
	upMark, downMark   int64 // tap volume at the time of the last write
	terminatedExpected bool
	deleted            bool
	// wasInactive: since the last credit write the user has had a moment without any session (it was
	// deregistered); bytes metered around that moment may legitimately stay uncharged, so only the
	// "never more than once" inequality is demanded until the next write
	wasInactive bool
	// exact: set when credit was written while the user was active and its traffic quiescent: the next
	// upload must leave exactly these values, even if that upload cuts the user off
	exact            bool
	exactUp, exactDn int64
}

type c16Run struct {
	g     *srvRig
	r     *vk.Reporter
	users []*c16User
	log   []string
	vkind string
	vdet  string
}

func (c *c16Run) note(f string, a ...any) {
	c.log = append(c.log, fmt.Sprintf("T+%s ", time.Since(c16Start).Round(time.Second))+fmt.Sprintf(f, a...))
}

var c16Start time.Time

func (c *c16Run) fail(k, d string) {
	if c.vkind == "" {
		tail := c.log
		if len(tail) > 25 {
			tail = tail[len(tail)-25:]
		}
		c.vkind, c.vdet = k, d+fmt.Sprintf("; history: %v", tail)
	}
}

// volume sums the record payload bytes the taps saw for a user (handshake flights excluded).
// Upload is what the server took out of the network (a record the client wrote just before the
// connection was torn down and that the server never read is not usage); download is what the
// server wrote.
func (u *c16User) volume() (up, down int64) {
	for _, p := range u.allPipes {
		w0, _ := p.Wire(0)
		recs, _ := vk.SplitRecords(w0)
		taken := p.Consumed(0)
		for i, r := range recs {
			if i >= 1 && int64(r.Off+5+len(r.Payload)) <= taken { // after the ClientHello
				up += int64(len(r.Payload))
			}
		}
		w1, _ := p.Wire(1)
		recs, _ = vk.SplitRecords(w1)
		for i, r := range recs {
			if i >= 3 { // after ServerHello, ChangeCipherSpec and the first application-data record
				down += int64(len(r.Payload))
			}
		}
	}
	return
}

func (c *c16Run) openSession(u *c16User, sid uint32, conns int) bool {
	cfg := cliCfg{UID: u.uid, Method: "shadowsocks", Enc: "aes-gcm", Transport: "direct", Browser: "firefox", NumConn: 1, SessionID: sid}
	_, remote, auth, err := c.g.clientConfigs(cfg)
	if err != nil {
		panic(err)
	}
	s := &c16Sess{sid: sid}
	for k := 0; k < conns; k++ {
		conn, pipe, err := c.g.lis.DialPipe()
		if err != nil {
			return false
		}
		tr := remote.Transport.CreateTransport()
		type res struct {
			key [32]byte
			err error
		}
		ch := make(chan res, 1)
		go func() { k, e := tr.Handshake(conn, auth); ch <- res{k, e} }()
		vk.Wait()
		var rr res
		select {
		case rr = <-ch:
		default:
			conn.Close()
			return false // refused (no reply)
		}
		if rr.err != nil {
			return false
		}
		u.allPipes = append(u.allPipes, pipe)
		s.pipes = append(s.pipes, pipe)
		if s.cs == nil {
			obf, _ := muxObfuscator(auth.EncryptionMethod, rr.key)
			s.cs = muxSession(sid, obf)
		}
		s.cs.AddConnection(tr)
	}
	st, err := s.cs.OpenStream()
	if err != nil {
		return false
	}
	st.Write([]byte("idle stream keeps the user active"))
	s.st = st
	go io.Copy(io.Discard, st)
	u.sessions[sid] = s
	c.note("uid%d opens session %d (%d conns)", u.idx, sid, conns)
	return true
}

func (c *c16Run) traffic(u *c16User, s *c16Sess, n int, rng *mrand.Rand) {
	if s == nil || s.cs == nil {
		return // the session was found closed (and dropped from the books) by the settling step in between
	}
	st, err := s.cs.OpenStream()
	if err != nil {
		return
	}
	done := make(chan struct{})
	go func() {
		defer close(done)
		got := 0
		buf := make([]byte, 32768)
		for got < n {
			k, err := st.Read(buf)
			if err != nil {
				return
			}
			got += k
		}
	}()
	left := n
	for left > 0 {
		sz := 1 + rng.IntN(20000)
		if sz > left {
			sz = left
		}
		if _, err := st.Write(make([]byte, sz)); err != nil {
			break
		}
		left -= sz
	}
	vk.Wait()
	st.Close()
	vk.Wait()
	c.note("uid%d session %d carries %d bytes each way", u.idx, s.sid, n)
	c.r.Count("traffic_bytes", int64(2*n))
}

func (c *c16Run) stored(u *c16User) (up, down int64, ok bool) {
	info, err := c.g.sta.Panel.Manager.GetUserInfo(u.uid)
	if err != nil || info.UpCredit == nil || info.DownCredit == nil {
		return 0, 0, false
	}
	return *info.UpCredit, *info.DownCredit, true
}

// settle lets one or two complete upload rounds happen with no traffic, then compares.
func (c *c16Run) settleAndCheck(when string) {
	vk.Wait()
	time.Sleep(125 * time.Second) // two upload intervals: every pending usage has been committed
	vk.Wait()
	for _, u := range c.users {
		if u.bypass || u.deleted {
			continue
		}
		up, down, ok := c.stored(u)
		if !ok {
			c.fail("harness", fmt.Sprintf("cannot read back user uid%d", u.idx))
			return
		}
		vu, vd := u.volume()
		if u.exact {
			u.exact = false
			// everything carried before the upload must be charged; frames the server itself sends while
			// it cuts the user off (closing notices) may or may not be charged, nothing else
			loUp, loDn := u.upBase-(vu-u.upMark), u.downBase-(vd-u.downMark)
			if up > u.exactUp || down > u.exactDn || up < loUp || down < loDn {
				c.fail("cutoff-charge-incomplete", fmt.Sprintf("%s: uid%d had carried a known volume with traffic stopped before the upload; that upload must leave up/down credit of at most %d/%d (and at least %d/%d) but the database holds %d/%d: the round that exhausts one credit must still charge both directions exactly once", when, u.idx, u.exactUp, u.exactDn, loUp, loDn, up, down))
				return
			}
			c.r.Count("exact_cutoff_checks", 1)
		}
		wantUp, wantDown := u.upBase-(vu-u.upMark), u.downBase-(vd-u.downMark)
		active := len(u.sessions) > 0 && !u.terminatedExpected && !u.wasInactive
		c.r.Count("credit_comparisons", 1)
		if up < wantUp || down < wantDown {
			c.fail("overcharged", fmt.Sprintf("%s: uid%d is charged more than it carried: stored up/down credit %d/%d, but written value minus the volume on the wire is %d/%d (volume since last write %d up, %d down)", when, u.idx, up, down, wantUp, wantDown, vu-u.upMark, vd-u.downMark))
			return
		}
		if active && (up != wantUp || down != wantDown) {
			var arr [16]byte
			copy(arr[:], u.uid)
			c.g.sta.Panel.activeUsersM.RLock()
			au := c.g.sta.Panel.activeUsers[arr]
			c.g.sta.Panel.activeUsersM.RUnlock()
			if au != nil {
				c.note("panel record of uid%d: %d sessions, valve rx=%d tx=%d", u.idx, au.NumSession(), au.valve.GetRx(), au.valve.GetTx())
			} else {
				c.note("uid%d has no panel record", u.idx)
			}
			c.fail("undercharged", fmt.Sprintf("%s: uid%d stayed active, traffic has stopped and two upload rounds have passed, yet stored up/down credit is %d/%d instead of %d/%d (volume since last write %d up, %d down): usage was not charged exactly once", when, u.idx, up, down, wantUp, wantDown, vu-u.upMark, vd-u.downMark))
			return
		}
		// cut-off: credit at or below zero, expiry passed, or deleted => no session left
		if up <= 0 || down <= 0 {
			u.terminatedExpected = true
		}
	}
	// terminated users must have lost every session
	time.Sleep(10 * time.Minute)
	vk.Wait()
	for _, u := range c.users {
		if !u.terminatedExpected {
			continue
		}
		for sid, s := range u.sessions {
			if !s.cs.IsClosed() {
				c.fail("not-cut-off", fmt.Sprintf("%s: uid%d has run out of credit, expired or was deleted, an upload round has completed and 10 more virtual minutes have passed, but its session %d is still open", when, u.idx, sid))
				return
			}
		}
		var arr [16]byte
		copy(arr[:], u.uid)
		c.g.sta.Panel.activeUsersM.RLock()
		au := c.g.sta.Panel.activeUsers[arr]
		c.g.sta.Panel.activeUsersM.RUnlock()
		if au != nil && au.NumSession() > 0 {
			c.fail("not-cut-off", fmt.Sprintf("%s: uid%d should have been terminated but the panel still holds %d sessions for it", when, u.idx, au.NumSession()))
			return
		}
		u.sessions = map[uint32]*c16Sess{}
		u.wasInactive = true
		c.r.Count("cutoffs_checked", 1)
	}
}

func (c *c16Run) write(u *c16User, up, down, exp *int64) {
	info := usermanager.UserInfo{UID: u.uid, UpCredit: up, DownCredit: down, ExpiryTime: exp}
	if err := c.g.sta.Panel.Manager.WriteUserInfo(info); err != nil {
		panic(err)
	}
	vu, vd := u.volume()
	if up != nil && down != nil {
		u.wasInactive = len(u.sessions) == 0
	}
	if up != nil {
		u.upBase, u.upMark = *up, vu
	}
	if down != nil {
		u.downBase, u.downMark = *down, vd
	}
}

// c16Conservation: connection goroutines meter bytes on a user's valve while the periodic
// collection and per-user collections (terminations) run concurrently; afterwards the usage queue
// must hold exactly what was metered - nothing lost, nothing counted twice. Real goroutines on
// several Ps, no bubble.
func c16Conservation(r *vk.Reporter, rng *mrand.Rand, writers, adds int) (string, string) {
	e := newC17Env(rng, 1, 10)
	defer e.close()
	u, _ := e.admit(0, 1)
	if u == nil {
		return "inconclusive", "user not admitted"
	}
	defer runtime.GOMAXPROCS(runtime.GOMAXPROCS(max(4, writers)))
	var up, down atomic.Int64
	var wg sync.WaitGroup
	stop := make(chan struct{})
	for w := 0; w < writers; w++ {
		seed := rng.Uint64()
		wg.Add(1)
		go func() {
			defer wg.Done()
			lr := mrand.New(mrand.NewPCG(seed, 5))
			for k := 0; k < adds; k++ {
				a, b := int64(1+lr.IntN(16000)), int64(1+lr.IntN(16000))
				u.valve.AddRx(a)
				up.Add(a)
				u.valve.AddTx(b)
				down.Add(b)
			}
		}()
	}
	var cg sync.WaitGroup
	for c := 0; c < 3; c++ {
		cg.Add(1)
		go func() {
			defer cg.Done()
			for {
				select {
				case <-stop:
					return
				default:
				}
				if c == 0 {
					e.panel.updateUsageQueue()
				} else {
					e.panel.updateUsageQueueForOne(u)
				}
			}
		}()
	}
	wg.Wait()
	close(stop)
	cg.Wait()
	e.panel.updateUsageQueue()
	e.panel.usageUpdateQueueM.Lock()
	q := e.panel.usageUpdateQueue[u.arrUID]
	var qu, qd int64
	if q != nil {
		qu, qd = atomic.LoadInt64(q.up), atomic.LoadInt64(q.down)
	}
	e.panel.usageUpdateQueueM.Unlock()
	r.Count("conservation_adds", int64(2*writers*adds))
	if qu != up.Load() || qd != down.Load() {
		return "not-conserved", fmt.Sprintf("%d goroutines metered %d bytes up / %d down on one user's valve while collections ran concurrently; the usage queue holds %d / %d (difference %+d / %+d): bytes were lost or counted twice",
			writers, up.Load(), down.Load(), qu, qd, qu-up.Load(), qd-down.Load())
	}
	return "", ""
}

func TestVerif_C16(t *testing.T) {
	r := vk.Open()
	defer r.Close()
	for i := 0; i < r.Pick(8, 64); i++ {
		id := fmt.Sprintf("conservation-%d", i)
		if !r.Mine(id) {
			continue
		}
		r.Case(id, nil)
		k, d := c16Conservation(r, r.Rand("c16c", i), 2+i%5, r.Pick(60000, 300000))
		r.Count("evaluations", 1)
		r.Distinct("cases", vk.Hash64("cons", i))
		switch k {
		case "":
			r.Pass(id)
		case "inconclusive":
			r.Inconclusive(id, d)
		default:
			r.Violation(id, "C16:"+k, d, nil)
		}
	}
	n := r.Pick(40, 2000)
	for i := 0; i < n; i++ {
		id := fmt.Sprintf("history-%d", i)
		if !r.Mine(id) {
			continue
		}
		r.Case(id, nil)
		run := &c16Run{r: r}
		p, leftover := vk.InBubble(t, func() {
			rng := r.Rand("c16", i)
			c16Start = time.Now()
			bypassUID := randUID(rng)
			g := newSrvRig(t, srvOpts{DB: true, Bypass: [][]byte{bypassUID}})
			defer g.cleanup()
			run.g = g
			g.serve()
			go g.echoProxy()
			nu := 1 + rng.IntN(4)
			j := usermanager.JustInt64
			for k := 0; k < nu; k++ {
				u := &c16User{idx: k, uid: randUID(rng), sessions: map[uint32]*c16Sess{}}
				credit := int64(200000 + rng.IntN(3000000))
				if rng.IntN(3) == 0 {
					credit = int64(1 << 40)
				}
				u.upBase, u.downBase = credit, credit+7
				g.sta.Panel.Manager.WriteUserInfo(usermanager.UserInfo{UID: u.uid, SessionsCap: usermanager.JustInt32(5), UpRate: j(1 << 40), DownRate: j(1 << 40),
					UpCredit: j(u.upBase), DownCredit: j(u.downBase), ExpiryTime: j(time.Now().Unix() + 100000)})
				run.users = append(run.users, u)
			}
			bp := &c16User{idx: 99, uid: bypassUID, bypass: true, sessions: map[uint32]*c16Sess{}}
			run.users = append(run.users, bp)
			for _, u := range run.users {
				run.openSession(u, 1, 1+rng.IntN(2))
			}
			steps := 5 + rng.IntN(8)
			nextSid := uint32(2)
			for s := 0; s < steps && run.vkind == ""; s++ {
				u := run.users[rng.IntN(len(run.users))]
				var live []uint32
				for sid, ss := range u.sessions {
					if !ss.cs.IsClosed() {
						live = append(live, sid)
					}
				}
				sort.Slice(live, func(a, b int) bool { return live[a] < live[b] })
				switch op := rng.IntN(10); {
				case op == 4 && len(live) > 0 && !u.bypass && !u.deleted && !u.terminatedExpected && rng.IntN(2) == 0:
					// credit that lands exactly on zero at the next upload: the user must be cut off
					run.settleAndCheck("before exact-zero")
					if run.vkind != "" {
						break
					}
					u0, d0 := u.volume()
					run.traffic(u, u.sessions[live[0]], 1+rng.IntN(50000), rng)
					u1, d1 := u.volume()
					pu, pd := u1-u0, d1-d0
					if rng.IntN(2) == 0 {
						run.write(u, usermanager.JustInt64(pu), usermanager.JustInt64(1<<30), nil)
						u.upMark = u0
						u.exact, u.exactUp, u.exactDn = true, 0, (1<<30)-pd
					} else {
						run.write(u, usermanager.JustInt64(1<<30), usermanager.JustInt64(pd), nil)
						u.downMark = d0
						u.exact, u.exactUp, u.exactDn = true, (1<<30)-pu, 0
					}
					u.upMark, u.downMark = u0, d0
					run.note("uid%d credit set to exactly the %d/%d bytes pending upload", u.idx, pu, pd)
					r.Count("exact_zero_cases", 1)
					run.settleAndCheck("after exact-zero")
				case op == 3 && len(live) > 0 && rng.IntN(2) == 0:
					// two upload rounds overlap: round 1 is held right after it collected the queue, round 2
					// runs to completion, then round 1 uploads what it had collected
					run.traffic(u, u.sessions[live[0]], 1+rng.IntN(60000), rng)
					parked, release := make(chan struct{}), make(chan struct{})
					var once sync.Once
					verifhook.Set("panel.commitUpdate.collected", func() {
						first := false
						once.Do(func() { first = true })
						if first {
							close(parked)
							<-release
						}
					})
					rdone := make(chan struct{})
					go func() {
						defer close(rdone)
						g.sta.Panel.updateUsageQueue()
						g.sta.Panel.commitUpdate()
					}()
					vk.Wait()
					select {
					case <-parked:
						g.sta.Panel.updateUsageQueue()
						g.sta.Panel.commitUpdate()
						r.Count("forced_overlapping_uploads", 1)
					default:
					}
					verifhook.Set("panel.commitUpdate.collected", nil)
					close(release)
					<-rdone
					run.note("two upload rounds overlapped (forced)")
					run.settleAndCheck("after overlapping upload rounds")
				case op < 5 && len(live) > 0: // traffic, possibly on several sessions before the next upload
					for k := 0; k < 1+rng.IntN(3); k++ {
						run.traffic(u, u.sessions[live[rng.IntN(len(live))]], 1+rng.IntN(150000), rng)
					}
					if rng.IntN(2) == 0 {
						time.Sleep(time.Duration(rng.IntN(90)) * time.Second)
					}
				case op == 5 && !u.terminatedExpected && !u.deleted: // another session
					run.openSession(u, nextSid, 1+rng.IntN(3))
					nextSid++
				case op == 6 && len(live) > 0: // close a session, possibly the user's last
					sid := live[rng.IntN(len(live))]
					u.sessions[sid].cs.Close()
					delete(u.sessions, sid)
					if len(u.sessions) == 0 {
						u.wasInactive = true
					}
					run.note("uid%d closes session %d", u.idx, sid)
				case op == 7 && !u.bypass && !u.deleted: // top-up / change credit (after everything pending has been uploaded)
					run.settleAndCheck("before top-up")
					v := int64(100000 + rng.IntN(1000000))
					run.write(u, usermanager.JustInt64(v), usermanager.JustInt64(v+3), nil)
					run.note("uid%d credit set to %d", u.idx, v)
					u.terminatedExpected = false
				case op == 8 && !u.bypass && !u.deleted && len(live) > 0: // expiry passes
					run.write(u, nil, nil, usermanager.JustInt64(time.Now().Unix()-1))
					u.terminatedExpected = true
					run.note("uid%d expiry moved into the past", u.idx)
				case op == 9 && !u.bypass && !u.deleted && len(live) > 0 && rng.IntN(2) == 0: // deletion
					run.settleAndCheck("before deletion")
					g.sta.Panel.Manager.DeleteUser(u.uid)
					u.deleted, u.terminatedExpected = true, true
					run.note("uid%d deleted", u.idx)
				}
				if rng.IntN(3) == 0 {
					run.settleAndCheck(fmt.Sprintf("step %d", s))
				}
			}
			if run.vkind == "" {
				run.settleAndCheck("end of history")
			}
			for _, u := range run.users {
				for _, s := range u.sessions {
					s.cs.Close()
				}
			}
			vk.Wait()
			r.Max("virtual_minutes", int64(time.Since(c16Start).Minutes()))
		})
		if p != nil && !leftover && run.vkind == "" {
			run.vkind, run.vdet = "panic", fmt.Sprint(p)
		}
		r.Count("evaluations", 1)
		r.Distinct("cases", vk.Hash64("c16", i))
		if i < 2 {
			r.Sample(map[string]any{"history": run.log[:min(len(run.log), 14)]})
		}
		if run.vkind != "" {
			r.Violation(id, "C16:"+run.vkind, run.vdet, nil)
		} else {
			r.Pass(id)
		}
	}
	_ = client.RawConfig{}
}
