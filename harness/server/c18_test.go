package server

// C18 (server part) - no record that the admin API can create causes a panic when its owner
// connects: every subset of the six optional fields, with ordinary and extreme values, is written
// through the real API router and then resolved by the panel as dispatchConnection does.

import (
	"bytes"
	"encoding/base64"
	"encoding/json"
	"fmt"
	"math"
	"net/http"
	"net/http/httptest"
	"os"
	"path/filepath"
	"sort"
	"testing"
	"time"

	"github.com/cbeuw/Cloak/internal/common"
	"github.com/cbeuw/Cloak/internal/server/usermanager"
	vk "github.com/cbeuw/Cloak/internal/verifkit"
)

func TestVerif_C18Owner(t *testing.T) {
	r := vk.Open()
	defer r.Close()
	fields := []string{"SessionsCap", "UpRate", "DownRate", "UpCredit", "DownCredit", "ExpiryTime"}
	values := []int64{0, 1, -1, math.MaxInt32, math.MinInt32, math.MaxInt64, math.MinInt64, 1 << 40}
	for blk := 0; blk < 8; blk++ {
		id := fmt.Sprintf("owner-connects-%d", blk)
		if !r.Mine(id) {
			continue
		}
		r.Case(id, nil)
		rng := r.Rand("c18o", blk)
		dir, _ := os.MkdirTemp("", "verif-c18o-")
		mgr, err := usermanager.MakeLocalManager(filepath.Join(dir, "u.db"), common.RealWorldState)
		if err != nil {
			panic(err)
		}
		router := usermanager.APIRouterOf(mgr)
		panel := MakeUserPanel(mgr)
		var vkind, vdet string
		for mask := blk; mask < 64 && vkind == ""; mask += 8 {
			for rep := 0; rep < r.Pick(6, 40) && vkind == ""; rep++ {
				uid := randUID(rng)
				set := map[string]any{"UID": uid}
				var names []string
				for fi, f := range fields {
					if mask&(1<<uint(fi)) == 0 {
						continue
					}
					v := values[rng.IntN(len(values))]
					if rep == 0 {
						// a perfectly usable value for every field that is present
						v = []int64{5, 1 << 20, 1 << 20, 1 << 30, 1 << 30, time.Now().Unix() + 100000}[fi]
					} else if rep == 1 && (f == "UpCredit" || f == "DownCredit" || f == "ExpiryTime") {
						// credit and expiry fine, so that the rate fields decide
						v = []int64{0, 0, 0, 1 << 30, 1 << 30, time.Now().Unix() + 100000}[fi]
					}
					if f == "SessionsCap" {
						v = int64(int32(v))
					}
					set[f] = v
					names = append(names, fmt.Sprintf("%s=%d", f, v))
				}
				sort.Strings(names)
				body, _ := json.Marshal(set)
				req, _ := http.NewRequest("POST", "/admin/users/"+base64.URLEncoding.EncodeToString(uid), bytes.NewReader(body))
				rr := httptest.NewRecorder()
				func() {
					defer func() {
						if p := recover(); p != nil {
							vkind, vdet = "api-panic", fmt.Sprintf("creating a record with %v panicked: %v", names, p)
						}
					}()
					router.ServeHTTP(rr, req)
				}()
				if vkind != "" || rr.Code >= 300 {
					continue // refused records are not the API's records
				}
				r.Count("records_created", 1)
				func() {
					defer func() {
						if p := recover(); p != nil {
							vkind, vdet = "owner-connect-panic", fmt.Sprintf("the owner of a record the API created (%v) connects and the server panics resolving the user: %v", names, p)
						}
					}()
					u, err := panel.GetUser(uid)
					if err == nil && u != nil {
						s, _, err := u.GetSession(1, c17Config())
						if err == nil && s != nil {
							u.CloseSession(1, "")
						} else {
							u.CloseSession(1, "")
						}
						r.Count("owners_admitted", 1)
					} else {
						r.Count("owners_refused", 1)
					}
				}()
				r.Count("evaluations", 1)
				r.Count("distinct_enumerated", 1)
			}
		}
		mgr.Close()
		os.RemoveAll(dir)
		r.Distinct("cases", vk.Hash64("owner", blk))
		if blk == 0 {
			r.Sample(map[string]any{"field_subsets": "masks 0,8,16,...", "values": values})
		}
		if vkind != "" {
			r.Violation(id, "C18:"+vkind, vdet, nil)
		} else {
			r.Pass(id)
		}
	}
}
