package server

// C05, second part: the SERVER side of the WebSocket transport (the connection the real
// wsHandshakeHandler produces) keeps message framing intact when the peer - or a CDN in front of
// it - sends WebSocket control frames (pings) while data messages are being written under
// back-pressure by several goroutines.

import (
	"bytes"
	"encoding/binary"
	"fmt"
	"runtime"
	"sync"
	"testing"
	"time"

	"github.com/cbeuw/Cloak/internal/client"
	vk "github.com/cbeuw/Cloak/internal/verifkit"
	"github.com/gorilla/websocket"
)

func c05wsMsg(writer, counter uint32, size int) []byte {
	b := vk.Datagram(writer, counter, max(size, 24))
	binary.BigEndian.PutUint32(b[len(b)-8:], writer)
	binary.BigEndian.PutUint32(b[len(b)-4:], counter)
	return b
}

func c05wsRun(t *testing.T, r *vk.Reporter, rng interface{ IntN(int) int }, writers, per, pings, window int) (k, d string) {
	p, leftover := vk.InBubble(t, func() {
		g := newSrvRig(t, srvOpts{})
		g.hsWindow = window
		c := cliCfg{UID: randUID2(rng), Method: "shadowsocks", Enc: "plain", Transport: "cdn", Browser: "chrome", NumConn: 1, SessionID: 3}
		res := g.componentHandshake(c, nil)
		if res.srvErr != nil || res.cliErr != nil || res.prepared == nil {
			k, d = "handshake", fmt.Sprintf("%v / %v at %s", res.srvErr, res.cliErr, res.stage)
			return
		}
		ws, ok := res.cliConn.(*client.WSOverTLS)
		if !ok || ws.WebSocketConn == nil {
			k, d = "harness", "client transport is not WSOverTLS"
			return
		}
		srv := res.prepared
		// the server reads all the time (as the session's receive loop does): that is where control
		// frames are processed
		go func() {
			buf := make([]byte, 20000)
			for {
				if _, err := srv.Read(buf); err != nil {
					return
				}
			}
		}()
		sent := make([][][]byte, writers)
		var wg sync.WaitGroup
		for w := 0; w < writers; w++ {
			for i := 0; i < per; i++ {
				sent[w] = append(sent[w], c05wsMsg(uint32(w), uint32(i), []int{16000, 300, 9000, 24}[(w+i)%4]))
			}
			wg.Add(1)
			go func() {
				defer wg.Done()
				for _, m := range sent[w] {
					if _, err := srv.Write(m); err != nil {
						return
					}
				}
			}()
		}
		vk.Wait() // the writers are stuck behind the window: the client has not read anything yet
		for i := 0; i < pings; i++ {
			ws.WebSocketConn.Conn.WriteControl(websocket.PingMessage, []byte(fmt.Sprintf("ping-%d", i)), time.Now().Add(time.Second))
			vk.Wait()
		}
		r.Count("pings_during_blocked_writes", int64(pings))
		// now the client reads everything
		next := make([]int, writers)
		total := writers * per
		got := 0
		done := make(chan struct{})
		go func() {
			defer close(done)
			buf := make([]byte, 20000)
			for got < total {
				n, err := ws.Read(buf)
				if err != nil {
					k, d = "read-error", fmt.Sprintf("the client's Read of message %d of %d failed: %v", got, total, err)
					return
				}
				m := buf[:n]
				if n < 24 {
					k, d = "wrong-message", fmt.Sprintf("Read returned %d bytes, no message that short was written", n)
					return
				}
				w, i := int(binary.BigEndian.Uint32(m[n-8:])), int(binary.BigEndian.Uint32(m[n-4:]))
				if w >= writers || i != next[w] || !bytes.Equal(m, sent[w][i]) {
					k, d = "wrong-message", fmt.Sprintf("Read %d returned %d bytes that are not the next whole message of any writer (claims writer %d message %d, expected message %d)", got, n, w, i, next[min(w, writers-1)])
					return
				}
				next[w]++
				got++
				// a ping in the middle of the transfer as well
				if got%7 == 3 {
					ws.WebSocketConn.Conn.WriteControl(websocket.PingMessage, []byte("mid"), time.Now().Add(time.Second))
				}
			}
		}()
		vk.Wait()
		time.Sleep(30 * time.Second)
		vk.Wait()
		select {
		case <-done:
		default:
			if k == "" {
				k, d = "reader-parked", fmt.Sprintf("the client got %d of %d messages and is parked although all of them were written", got, total)
			}
		}
		r.Count("messages_checked", int64(got))
		srv.Close()
		ws.Close()
		vk.Wait()
	})
	if p != nil && !leftover && k == "" {
		k, d = "panic", fmt.Sprint(p)
	}
	return
}

func randUID2(rng interface{ IntN(int) int }) []byte {
	b := make([]byte, 16)
	for i := range b {
		b[i] = byte(rng.IntN(256))
	}
	return b
}

func TestVerif_C05WS(t *testing.T) {
	r := vk.Open()
	defer r.Close()
	for i := 0; i < r.Pick(12, 200); i++ {
		id := fmt.Sprintf("server-websocket-pings-%d", i)
		if !r.Mine(id) {
			continue
		}
		// one data writer: a second one would wait for WebSocketConn's write mutex, and a goroutine
		// waiting for a mutex keeps a synctest bubble from ever becoming idle
		writers, per, pings, window := 1, 6+i%9, 1+i%4, []int{4096, 16384, 2048}[i%3]
		r.Case(id, map[string]any{"writers": writers, "messages_per_writer": per, "pings": pings, "window": window})
		prev := runtime.GOMAXPROCS([]int{1, 4, 16}[i%3])
		k, d := c05wsRun(t, r, r.Rand("c05ws", i), writers, per, pings, window)
		runtime.GOMAXPROCS(prev)
		r.Count("evaluations", 1)
		r.Distinct("cases", vk.Hash64("wsping", i))
		if k != "" {
			r.Violation(id, "C05:"+k, fmt.Sprintf("server-side WebSocket connection, %d writers x %d messages, %d pings while the writes were blocked (window %d): %s", writers, per, pings, window, d), nil)
		} else {
			r.Pass(id)
		}
	}
}
