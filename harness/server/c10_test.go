package server

// C10 - everything on the wire in direct mode is a well-formed TLS record stream.
// Offline checker (independent reftls parser) over the byte taps of every ck-client <-> ck-server
// connection of whole-system runs: real client.MakeSession/RouteTCP-style traffic against the real
// Serve loop, including maximum-size frames and stream/session closing notices.

import (
	"bytes"
	"fmt"
	"io"
	mrand "math/rand/v2"
	"regexp"
	"runtime"
	"strings"
	"sync"
	"testing"
	"time"

	vk "github.com/cbeuw/Cloak/internal/verifkit"
)

var c10RandomName = regexp.MustCompile(`^[a-z]{3,12}\.(com|net|org|it|fr|me|ru|cn|es|tr|top|xyz|info)$`)

// c10CheckConn validates both directions of one tapped connection.
func c10CheckConn(r *vk.Reporter, p *vk.Pipe, serverName string) (kind, detail string) {
	up, _ := p.Wire(0)
	down, _ := p.Wire(1)
	ur, urest := vk.SplitRecords(up)
	dr, drest := vk.SplitRecords(down)
	if len(ur) == 0 {
		return "no-client-hello", fmt.Sprintf("connection %d: client sent %d bytes that do not contain a complete record", p.Idx, len(up))
	}
	if urest != 0 || drest != 0 {
		return "trailing-bytes", fmt.Sprintf("connection %d: %d client bytes / %d server bytes at the end of the stream do not fall into records", p.Idx, urest, drest)
	}
	// client first flight
	ch0 := ur[0]
	if ch0.Type != 22 || ch0.Version != 0x0301 {
		return "client-hello-record", fmt.Sprintf("connection %d: first client record has type %d version %#04x, want handshake (22) / 0x0301", p.Idx, ch0.Type, ch0.Version)
	}
	ch, err := vk.ParseClientHello(ch0.Payload)
	if err != nil {
		return "client-hello-malformed", fmt.Sprintf("connection %d: ClientHello does not parse: %v", p.Idx, err)
	}
	if len(ch.SessionID) != 32 {
		return "client-hello-session-id", fmt.Sprintf("connection %d: ClientHello session id has %d bytes, want 32", p.Idx, len(ch.SessionID))
	}
	if ks, ok := ch.KeyShares[0x001d]; !ok || len(ks) != 32 {
		return "client-hello-key-share", fmt.Sprintf("connection %d: ClientHello carries no 32-byte x25519 key share (have %d bytes)", p.Idx, len(ks))
	}
	if !ch.HasSNI {
		return "client-hello-sni", fmt.Sprintf("connection %d: ClientHello carries no server name", p.Idx)
	}
	if strings.EqualFold(serverName, "random") {
		if !c10RandomName.MatchString(ch.SNI) {
			return "client-hello-sni", fmt.Sprintf("connection %d: ServerName=random produced the server name %q, which does not have the documented random shape", p.Idx, ch.SNI)
		}
		r.Count("random_server_names", 1)
	} else if ch.SNI != serverName {
		return "client-hello-sni", fmt.Sprintf("connection %d: ClientHello carries server name %q, configured %q", p.Idx, ch.SNI, serverName)
	}
	r.Distinct("hello_variants", fmt.Sprint(len(ch0.Payload), vk.ExtOrder(ch.Extensions)))
	// server first flight
	if len(dr) < 3 {
		return "server-flight", fmt.Sprintf("connection %d: server sent %d records, want at least ServerHello, ChangeCipherSpec, application data", p.Idx, len(dr))
	}
	if dr[0].Type != 22 || dr[0].Version != 0x0303 {
		return "server-hello-record", fmt.Sprintf("connection %d: first server record has type %d version %#04x", p.Idx, dr[0].Type, dr[0].Version)
	}
	sh, err := vk.ParseServerHello(dr[0].Payload)
	if err != nil {
		return "server-hello-malformed", fmt.Sprintf("connection %d: ServerHello does not parse: %v", p.Idx, err)
	}
	if !bytes.Equal(sh.SessionID, ch.SessionID) {
		return "session-id-not-echoed", fmt.Sprintf("connection %d: ServerHello session id %x differs from the ClientHello's %x", p.Idx, sh.SessionID, ch.SessionID)
	}
	if sh.LegacyVersion != 0x0303 || sh.SelectedVer != 0x0304 || sh.KeyShareGroup != 0x001d || len(sh.KeyShare) != 32 {
		return "server-hello-fields", fmt.Sprintf("connection %d: ServerHello version %#x selected %#x key share group %#x len %d", p.Idx, sh.LegacyVersion, sh.SelectedVer, sh.KeyShareGroup, len(sh.KeyShare))
	}
	if dr[1].Type != 20 || dr[1].Version != 0x0303 || len(dr[1].Payload) != 1 || dr[1].Payload[0] != 1 {
		return "change-cipher-spec", fmt.Sprintf("connection %d: second server record is not ChangeCipherSpec (type %d, %d bytes)", p.Idx, dr[1].Type, len(dr[1].Payload))
	}
	check := func(side string, recs []vk.TLSRecord) (string, string) {
		for i, rc := range recs {
			if rc.Type != 23 || rc.Version != 0x0303 {
				return "record-header", fmt.Sprintf("connection %d: %s record %d has type %d version %#04x, want application data (23) / 0x0303", p.Idx, side, i, rc.Type, rc.Version)
			}
			if len(rc.Payload) == 0 || len(rc.Payload) > 1<<14+256 {
				return "record-length", fmt.Sprintf("connection %d: %s record %d has length %d, must be 1..%d", p.Idx, side, i, len(rc.Payload), 1<<14+256)
			}
			r.Max("max_record_length", int64(len(rc.Payload)))
			r.Count("records_parsed", 1)
			r.Count("bytes_parsed", int64(len(rc.Payload)+5))
		}
		return "", ""
	}
	if k, d := check("client", ur[1:]); k != "" {
		return k, d
	}
	if k, d := check("server", dr[2:]); k != "" {
		return k, d
	}
	return "", ""
}

func TestVerif_C10(t *testing.T) {
	r := vk.Open()
	defer r.Close()
	// forced overlap of two direct-mode handshakes inside the server (see authWindow)
	for i := 0; i < r.Pick(12, 300); i++ {
		id := fmt.Sprintf("auth-window-%d", i)
		if !r.Mine(id) {
			continue
		}
		r.Case(id, nil)
		var vkind, vdet string
		prev := runtime.GOMAXPROCS(1)
		p, leftover := vk.InBubble(t, func() {
			res, _ := authWindow(t, "direct", []string{"hook", "manager"}[i%2], r.Rand("c10w", i))
			for _, c := range res {
				if c.pipe == nil {
					continue
				}
				if k, d := c10CheckConn(r, c.pipe, "www.example.com"); k != "" {
					vkind, vdet = k, d+" (two handshakes overlapping inside the server, forced at disp.userResolved)"
					return
				}
				r.Count("connections_checked", 1)
			}
		})
		runtime.GOMAXPROCS(prev)
		if p != nil && !leftover && vkind == "" {
			vkind, vdet = "panic", fmt.Sprint(p)
		}
		r.Count("evaluations", 1)
		r.Distinct("cases", vk.Hash64("aw", i))
		if vkind != "" {
			r.Violation(id, "C10:"+vkind, vdet, nil)
		} else {
			r.Pass(id)
		}
	}
	n := r.Pick(64, 4000)
	for i := 0; i < n; i++ {
		id := fmt.Sprintf("session-%d", i)
		rng := r.Rand("c10", i)
		c := c06Cfg(rng, i*5+1)
		c.Transport = "direct"
		c.UDP = i%7 == 3
		c.Method = "shadowsocks"
		if c.UDP {
			c.Method = "openvpn"
		}
		c.NumConn = []int{0, 1, 2, 4}[i%4]
		if c.SessionID == 0 {
			c.SessionID = 77
		}
		if !r.Mine(id) {
			continue
		}
		r.Case(id, c)
		var vkind, vdet string
		p, leftover := vk.InBubble(t, func() {
			nbUID := randUID(rng)
			g := newSrvRig(t, srvOpts{Bypass: [][]byte{c.UID, nbUID}, Methods: map[string][]string{"shadowsocks": {"tcp", "10.0.0.1:1111"}, "openvpn": {"tcp", "10.0.0.1:1111"}}})
			defer g.cleanup()
			var mu sync.Mutex
			var cks []*vk.Pipe
			// variants: "stall" - the path server->client stops delivering for 7 virtual seconds while the
			// server is in the middle of a record (bounded window), then resumes; "neighbour" - a second
			// user's connection is reset under the server's write while this session keeps running
			variant := map[int]string{5: "stall", 6: "neighbour"}[i%8]
			if c.UDP {
				variant = ""
			}
			if variant == "neighbour" {
				defer runtime.GOMAXPROCS(runtime.GOMAXPROCS(1)) // buffer pools are per-P
			}
			var hookMu sync.Mutex
			srvWrites, fired := 0, false
			g.net.BeforeWrite = func(cn *vk.Conn) {
				pp := cn.Pipe()
				if cn.Side() != 1 || (variant == "stall" && pp.Name != "ck") || (variant == "neighbour" && pp.Name != "nb") || variant == "" {
					return
				}
				hookMu.Lock()
				srvWrites++
				hit := !fired && srvWrites == 6
				if hit {
					fired = true
				}
				hookMu.Unlock()
				if !hit {
					return
				}
				if variant == "stall" {
					pp.Stall(1, true)
					r.Count("forced_delivery_stalls", 1)
					go func() { time.Sleep(7 * time.Second); pp.Stall(1, false) }()
				} else {
					pp.Break("reset")
					r.Count("forced_neighbour_resets", 1)
				}
			}
			nbDial := false
			g.lis.OnDial = func(int) vk.PipeOpts {
				o := vk.PipeOpts{NoCut: true, Name: "ck"}
				if variant == "stall" {
					o.Window = 8192
				}
				if nbDial {
					o.Name = "nb"
				}
				s1, s2 := rng.Uint64(), rng.Uint64()
				switch rng.IntN(3) {
				case 0:
					o.Seg[0], o.Seg[1] = vk.SegRandom(mrand.New(mrand.NewPCG(s1, 1))), vk.SegRandom(mrand.New(mrand.NewPCG(s2, 2)))
				case 1:
					o.Seg[0], o.Seg[1] = vk.SegSmall(mrand.New(mrand.NewPCG(s1, 1))), vk.SegSmall(mrand.New(mrand.NewPCG(s2, 2)))
				}
				return o
			}
			g.serve()
			go g.echoProxy()
			_, remote, auth, err := g.clientConfigs(c)
			if err != nil {
				vkind, vdet = "config", err.Error()
				return
			}
			defer g.stopClients()
			sesh := g.makeSession(remote, auth, "direct")
			if sesh == nil {
				vkind, vdet = "no-session", "a correctly configured direct-mode client cannot establish its session"
				return
			}
			nst := 1
			if c.NumConn != 0 {
				nst = 1 + rng.IntN(5)
			}
			var wg sync.WaitGroup
			if variant == "neighbour" {
				// the neighbour: another user with its own session; its connection will be reset under
				// the server's sixth write to it
				nc := c
				nc.UID = nbUID
				nc.NumConn, nc.SessionID = 1, 4242
				_, nremote, nauth, err := g.clientConfigs(nc)
				if err == nil {
					nbDial = true
					ns := g.makeSession(nremote, nauth, "direct")
					nbDial = false
					if ns != nil {
						if st, err := ns.OpenStream(); err == nil {
							wg.Add(1)
							go func() {
								defer wg.Done()
								for k := 0; k < 12; k++ {
									if _, err := st.Write(make([]byte, 3000)); err != nil {
										return
									}
									st.SetReadDeadline(time.Now().Add(20 * time.Second))
									if _, err := io.ReadFull(st, make([]byte, 3000)); err != nil {
										return
									}
								}
							}()
						}
					}
				}
			}
			for s := 0; s < nst; s++ {
				st, err := sesh.OpenStream()
				if err != nil {
					vkind, vdet = "open", err.Error()
					return
				}
				sizes := []int{1, 100, 16132, 16133, 40000, 1 + rng.IntN(20000)}
				if c.UDP {
					sizes = []int{20, 1400, 16132, 8192}
				}
				seed := rng.Uint64()
				wg.Add(1)
				go func() {
					defer wg.Done()
					lr := mrand.New(mrand.NewPCG(seed, 7))
					for k := 0; k < 2+lr.IntN(4); k++ {
						sz := sizes[lr.IntN(len(sizes))]
						msg := make([]byte, sz)
						if _, err := st.Write(msg); err != nil {
							return
						}
						if c.UDP {
							buf := make([]byte, 20000)
							st.SetReadDeadline(time.Now().Add(10 * time.Second))
							st.Read(buf)
						} else {
							st.SetReadDeadline(time.Now().Add(time.Minute))
							io.ReadFull(st, make([]byte, sz))
						}
					}
					if lr.IntN(3) != 0 {
						st.Close()
					}
				}()
			}
			wg.Wait()
			vk.Wait()
			if rng.IntN(2) == 0 {
				sesh.Close()
			} else {
				// server-side close through the panel
				var arr [16]byte
				copy(arr[:], c.UID)
				g.sta.Panel.activeUsersM.RLock()
				u := g.sta.Panel.activeUsers[arr]
				g.sta.Panel.activeUsersM.RUnlock()
				if u != nil {
					u.CloseSession(c.SessionID, "test")
				}
			}
			vk.Wait()
			time.Sleep(time.Second)
			vk.Wait()
			for _, pp := range g.net.Pipes() {
				if pp.Name == "ck" {
					mu.Lock()
					cks = append(cks, pp)
					mu.Unlock()
				}
			}
			if len(cks) == 0 {
				vkind, vdet = "harness", "no ck connection tapped"
				return
			}
			for _, pp := range cks {
				if k, d := c10CheckConn(r, pp, c.ServerName); k != "" {
					vkind, vdet = k, d
					return
				}
				r.Count("connections_checked", 1)
			}
		})
		if p != nil && !leftover && vkind == "" {
			vkind, vdet = "panic", fmt.Sprint(p)
		}
		r.Count("evaluations", 1)
		r.Distinct("cases", vk.Hash64(c))
		if i < 3 {
			r.Sample(map[string]any{"browser": c.Browser, "server_name": c.ServerName, "enc": c.Enc, "num_conn": c.NumConn, "udp": c.UDP})
		}
		if vkind != "" {
			r.Violation(id, "C10:"+vkind, fmt.Sprintf("%s; configuration %+v", vdet, c), c)
		} else {
			r.Pass(id)
		}
	}
}
