package server

// C06 - client and server agree on identity, options and session key after the handshake.
// Component level: the real client transport performs its handshake over the hostile network;
// the harness plays the acceptor with the exported server API (readFirstPacket is the one
// in-package call) and compares every recovered field and both keys.
// Whole-system level: client.MakeSession against the real Serve loop; the session registered in
// the panel must carry the client's key and flags, and data must flow to the right proxy address.

import (
	"bytes"
	"crypto/rand"
	"fmt"
	"io"
	mrand "math/rand/v2"
	"net"
	"runtime"
	"strings"
	"testing"
	"time"

	"github.com/cbeuw/Cloak/internal/client"
	mux "github.com/cbeuw/Cloak/internal/multiplex"
	vk "github.com/cbeuw/Cloak/internal/verifkit"
)

type hsResult struct {
	first    []byte
	tr       Transport
	info     ClientInfo
	srvErr   error
	stage    string
	K        [32]byte
	cliKey   [32]byte
	cliErr   error
	prepared net.Conn
	cliConn  client.Transport
}

// componentHandshake runs one real client handshake against AuthFirstPacket + the returned finisher.
func (g *srvRig) componentHandshake(c cliCfg, seg func() vk.SegFunc) (res hsResult) {
	_, remote, auth, err := g.clientConfigs(c)
	if err != nil {
		res.cliErr, res.stage = err, "config"
		return
	}
	o := vk.PipeOpts{NoCut: true, Window: g.hsWindow}
	if seg != nil {
		o.Seg[0], o.Seg[1] = seg(), seg()
	}
	p := g.net.NewPipe(o)
	g.hsPipe = p
	done := make(chan struct{})
	tr := remote.Transport.CreateTransport()
	res.cliConn = tr
	go func() {
		defer close(done)
		res.cliKey, res.cliErr = tr.Handshake(p.A, auth)
	}()
	var conn net.Conn = p.B
	if c.Transport == "cdn" {
		conn, err = cdnTerminate(p.B)
		if err != nil {
			res.srvErr, res.stage = err, "cdn-tls"
			p.B.Close()
			<-done
			return
		}
	}
	buf := make([]byte, firstPacketSize)
	n, transport, _, err := readFirstPacket(conn, buf, 15*time.Second)
	res.first = append([]byte{}, buf[:n]...)
	res.tr = transport
	if err != nil {
		res.srvErr, res.stage = err, "read-first-packet"
		conn.Close()
		<-done
		return
	}
	info, finisher, err := AuthFirstPacket(buf[:n], transport, g.sta)
	res.info = info
	if err != nil {
		res.srvErr, res.stage = err, "auth"
		conn.Close()
		<-done
		return
	}
	rand.Read(res.K[:])
	res.prepared, err = finisher(conn, res.K, rand.Reader)
	if err != nil {
		res.srvErr, res.stage = err, "finish"
		conn.Close()
	}
	<-done
	return
}

func c06Names(rng *mrand.Rand, i int) string {
	switch i % 6 {
	case 0:
		return "a.io"
	case 1:
		return strings.Repeat("a", 63) + "." + strings.Repeat("b", 63) + "." + strings.Repeat("c", 63) + "." + strings.Repeat("d", 61) // 253 bytes
	case 2:
		return "random"
	case 3:
		return "RANDOM"
	case 4:
		return "www.bing.com"
	}
	n := 3 + rng.IntN(40)
	b := make([]byte, n)
	for k := range b {
		b[k] = byte('a' + rng.IntN(26))
	}
	return string(b) + ".net"
}

func c06Cfg(rng *mrand.Rand, i int) cliCfg {
	c := cliCfg{}
	switch i % 5 {
	case 0:
		c.UID = make([]byte, 16)
	case 1:
		c.UID = bytes.Repeat([]byte{0xff}, 16)
	default:
		c.UID = randUID(rng)
	}
	ln := 1 + (i/5)%12
	m := make([]byte, ln)
	for k := range m {
		m[k] = byte('a' + rng.IntN(26))
	}
	c.Method = string(m)
	c.Enc = encNames[(i/3)%4]
	if rng.IntN(8) == 0 {
		c.Enc = "aes-gcm"
	}
	c.SessionID = []uint32{0, 1, 1 << 31, 1<<32 - 1, rng.Uint32(), rng.Uint32()}[rng.IntN(6)]
	c.UDP = rng.IntN(2) == 0
	c.Browser = []string{"chrome", "firefox", "safari"}[(i/2)%3]
	c.Transport = []string{"direct", "direct", "cdn"}[i%3]
	c.ServerName = c06Names(rng, i/7)
	c.Offset = time.Duration(rng.Int64N(int64(356*time.Second))) - 178*time.Second
	c.NumConn = 1
	return c
}

func TestVerif_C06(t *testing.T) {
	r := vk.Open()
	defer r.Close()
	n := r.Pick(420, 60000)
	const per = 30 // handshakes per bubble/state
	for blk := 0; blk*per < n; blk++ {
		id := fmt.Sprintf("handshakes-%d", blk)
		if !r.Mine(id) {
			continue
		}
		r.Case(id, map[string]any{"handshakes": per})
		var vkind, vdet string
		var vcfg cliCfg
		p, leftover := vk.InBubble(t, func() {
			g := newSrvRig(t, srvOpts{})
			defer g.cleanup()
			rng := r.Rand("c06", blk)
			time.Sleep(time.Duration(rng.Int64N(int64(time.Second)))) // sub-second phase of the server clock
			for k := 0; k < per && vkind == ""; k++ {
				i := blk*per + k
				c := c06Cfg(rng, i)
				var seg func() vk.SegFunc
				switch rng.IntN(4) {
				case 0:
					seg = func() vk.SegFunc { return vk.SegOne() }
				case 1:
					s1 := rng.Uint64()
					seg = func() vk.SegFunc { s1++; return vk.SegRandom(mrand.New(mrand.NewPCG(s1, 3))) }
				case 2:
					s1 := rng.Uint64()
					seg = func() vk.SegFunc { s1++; return vk.SegSmall(mrand.New(mrand.NewPCG(s1, 4))) }
				}
				if c.Transport == "cdn" && rng.IntN(2) == 0 {
					seg = nil // byte-wise delivery of a full TLS handshake is slow; keep half of them whole
				}
				time.Sleep(time.Duration(rng.Int64N(int64(3 * time.Second))))
				if k%10 == 7 {
					// a client whose clock is ahead by just under the tolerance: with the server clock at N + f
					// seconds the client clock reads N + 180 + f/2, it embeds N + 180, and N + 180 - (N + f)
					// is inside the open window by f (time that passes during the handshake only helps)
					if f := time.Duration(time.Now().Nanosecond()); f >= 2*time.Millisecond {
						c.Offset = 180*time.Second - f/2
						r.Count("handshakes_just_inside_the_window", 1)
					}
				}
				res := g.componentHandshake(c, seg)
				r.Count("evaluations", 1)
				r.Distinct("cases", vk.Hash64(c.UID, c.Method, c.Enc, c.SessionID, c.UDP, c.Browser, c.Transport, c.ServerName, c.Offset))
				r.Distinct("hello_lengths", fmt.Sprint(c.Transport, c.Browser, len(res.first)))
				if c.Transport == "direct" && len(res.first) > 5 {
					if ch, err := vk.ParseClientHello(res.first[5:]); err == nil {
						r.Distinct("extension_orders", c.Browser+vk.ExtOrder(ch.Extensions))
					}
				}
				fail := func(k, d string) {
					vkind, vdet, vcfg = k, d, c
				}
				switch {
				case res.srvErr != nil:
					fail("handshake-refused", fmt.Sprintf("server side failed at stage %s: %v (client error: %v)", res.stage, res.srvErr, res.cliErr))
				case res.cliErr != nil:
					fail("client-failed", fmt.Sprintf("client handshake failed: %v", res.cliErr))
				case !bytes.Equal(res.info.UID, c.UID):
					fail("uid", fmt.Sprintf("server recovered UID %x, client configured %x", res.info.UID, c.UID))
				case res.info.ProxyMethod != c.Method:
					fail("proxy-method", fmt.Sprintf("server recovered proxy method %q, client configured %q", res.info.ProxyMethod, c.Method))
				case res.info.EncryptionMethod != encIDs[c.Enc]:
					fail("encryption-method", fmt.Sprintf("server recovered encryption method %d, client configured %s", res.info.EncryptionMethod, c.Enc))
				case res.info.SessionId != c.SessionID:
					fail("session-id", fmt.Sprintf("server recovered session id %d, client used %d", res.info.SessionId, c.SessionID))
				case res.info.Unordered != c.UDP:
					fail("unordered-flag", fmt.Sprintf("server recovered unordered=%v, client configured %v", res.info.Unordered, c.UDP))
				case res.cliKey != res.K:
					fail("session-key", "the key returned by the client's handshake differs from the session key the server sealed into its reply")
				}
				if vkind == "" && res.prepared != nil {
					// the prepared connections must carry one record/message each way
					msg := vk.Datagram(6, uint32(i), 200)
					go res.cliConn.Write(msg)
					buf := make([]byte, 1024)
					res.prepared.SetReadDeadline(time.Now().Add(time.Minute))
					nn, err := res.prepared.Read(buf)
					if err != nil || !bytes.Equal(buf[:nn], msg) {
						fail("post-handshake-conn", fmt.Sprintf("first message after the handshake arrived as (%d bytes, %v)", nn, err))
					}
				}
				if vkind == "" && res.prepared != nil {
					// ... and one from the server to the client (the client must have consumed exactly the server's flight)
					msg := vk.Datagram(7, uint32(i), 300)
					go res.prepared.Write(msg)
					buf := make([]byte, 1024)
					type rr struct {
						n   int
						err error
					}
					ch := make(chan rr, 1)
					go func() { n, err := res.cliConn.Read(buf); ch <- rr{n, err} }()
					vk.Wait()
					select {
					case x := <-ch:
						if x.err != nil || !bytes.Equal(buf[:x.n], msg) {
							fail("post-handshake-conn", fmt.Sprintf("the first server-to-client message after the handshake arrived at the client as (%d bytes, %v)", x.n, x.err))
						}
					default:
						fail("post-handshake-conn", "the first server-to-client message after the handshake never came out of the client's connection")
					}
				}
				if res.prepared != nil {
					res.prepared.Close()
				}
				if res.cliConn != nil {
					res.cliConn.Close()
				}
				if k == 0 && blk < 3 {
					r.Sample(map[string]any{"uid": fmt.Sprintf("%x", c.UID), "method": c.Method, "enc": c.Enc, "session_id": c.SessionID, "udp": c.UDP, "browser": c.Browser, "transport": c.Transport, "server_name": c.ServerName, "clock_offset": c.Offset.String(), "hello_len": len(res.first)})
				}
			}
		})
		if p != nil && !leftover && vkind == "" {
			vkind, vdet = "panic", fmt.Sprint(p)
		}
		if vkind != "" {
			r.Violation(id, "C06:"+vkind, fmt.Sprintf("%s; configuration %+v", vdet, vcfg), vcfg)
		} else {
			r.Pass(id)
		}
	}

	// forced overlap: connection A held between authorisation and session attachment while B
	// arrives and completes (both must still agree with the server on their own keys)
	for i := 0; i < r.Pick(16, 400); i++ {
		transport := []string{"cdn", "direct"}[i%2]
		id := fmt.Sprintf("auth-window-%s-%d", transport, i)
		if !r.Mine(id) {
			continue
		}
		r.Case(id, transport)
		var vkind, vdet string
		prev := runtime.GOMAXPROCS(1) // buffer pools are per-P: one P makes reuse by the next connection likely
		p, leftover := vk.InBubble(t, func() {
			res, _ := authWindow(t, transport, []string{"hook", "manager"}[(i/2)%2], r.Rand("c06w", i))
			for k, c := range res {
				name := []string{"the held connection A", "the overlapping connection B"}[k]
				switch {
				case !c.done || c.err != nil:
					vkind, vdet = "handshake-refused", fmt.Sprintf("%s (%s transport) did not complete its handshake although it is correctly configured: done=%v err=%v", name, transport, c.done, c.err)
				case c.srvKey == nil:
					vkind, vdet = "not-registered", fmt.Sprintf("%s completed its handshake but the server has no session for it", name)
				case *c.srvKey != c.key:
					vkind, vdet = "session-key", fmt.Sprintf("%s: client and server ended up with different session keys", name)
				}
				if vkind != "" {
					break
				}
			}
		})
		runtime.GOMAXPROCS(prev)
		if p != nil && !leftover && vkind == "" {
			vkind, vdet = "panic", fmt.Sprint(p)
		}
		r.Count("evaluations", 1)
		r.Count("forced_auth_windows", 1)
		r.Distinct("cases", vk.Hash64("aw", transport, i))
		if vkind != "" {
			r.Violation(id, "C06:"+vkind, vdet+" (forced overlap at disp.userResolved)", nil)
		} else {
			r.Pass(id)
		}
	}

	// all connections of one new session at once (what client.MakeSession does with NumConn > 1), a
	// database user and a user manager that is slow enough for them to overlap
	sb := r.Pick(24, 2000)
	for i := 0; i < sb; i++ {
		transport := []string{"direct", "cdn"}[i%2]
		id := fmt.Sprintf("same-session-burst-%s-%d", transport, i)
		if !r.Mine(id) {
			continue
		}
		nconn := 2 + i%5
		r.Case(id, map[string]any{"transport": transport, "connections": nconn})
		var vkind, vdet string
		prev := runtime.GOMAXPROCS([]int{1, 4, 16}[i%3])
		p, leftover := vk.InBubble(t, func() {
			res := sameSessionBurst(t, transport, nconn, r.Rand("c06b", i))
			for k, c := range res {
				switch {
				case !c.done || c.err != nil:
					vkind, vdet = "handshake-refused", fmt.Sprintf("connection %d of %d did not complete its handshake although it is correctly configured: done=%v err=%v", k, nconn, c.done, c.err)
				case c.srvKey == nil:
					vkind, vdet = "not-registered", fmt.Sprintf("connection %d completed its handshake but the server has no session under its id", k)
				case *c.srvKey != c.key:
					vkind, vdet = "session-key", fmt.Sprintf("connection %d of %d simultaneous connections of one new session was told a session key that differs from the key of the session the server keeps under that id", k, nconn)
				}
				if vkind != "" {
					break
				}
			}
		})
		runtime.GOMAXPROCS(prev)
		if p != nil && !leftover && vkind == "" {
			vkind, vdet = "panic", fmt.Sprint(p)
		}
		r.Count("evaluations", 1)
		r.Count("same_session_bursts", 1)
		r.Count("same_session_connections", int64(nconn))
		r.Distinct("cases", vk.Hash64("ssb", transport, i))
		if vkind != "" {
			r.Violation(id, "C06:"+vkind, vdet+fmt.Sprintf(" (%s transport, database user, yielding user manager)", transport), nil)
		} else {
			r.Pass(id)
		}
	}

	// whole system: MakeSession against Serve
	ws := r.Pick(16, 600)
	for i := 0; i < ws; i++ {
		id := fmt.Sprintf("system-%d", i)
		if !r.Mine(id) {
			continue
		}
		rng := r.Rand("c06s", i)
		c := c06Cfg(rng, i*7+3)
		// (openvpn is served by a udp endpoint: the session still has the mode the CLIENT asked for)
		c.Method = []string{"shadowsocks", "m", "abcdefghijkl", "openvpn", "shadowsocks"}[i%5]
		c.UDP = false
		c.NumConn = 1 + i%4
		if c.SessionID == 0 {
			c.SessionID = 5
		}
		r.Case(id, c)
		var vkind, vdet string
		p, leftover := vk.InBubble(t, func() {
			g := newSrvRig(t, srvOpts{Bypass: [][]byte{c.UID}})
			defer g.cleanup()
			g.serve()
			go g.echoProxy()
			_, remote, auth, err := g.clientConfigs(c)
			if err != nil {
				vkind, vdet = "config", err.Error()
				return
			}
			defer g.stopClients()
			var sesh *mux.Session
			if i%4 == 1 {
				// the server is unreachable for the first 200+ seconds (dials fail), then comes back: the
				// client, whose clock is right, must still get its session
				t0 := time.Now()
				outage := time.Duration(190+rng.IntN(200)) * time.Second
				fd := func(int) error {
					if time.Since(t0) < outage {
						return fmt.Errorf("network unreachable")
					}
					return nil
				}
				g.lis.FailDial, g.cdnL.FailDial = fd, fd
				sesh = g.makeSessionWithin(remote, auth, c.Transport, outage+60*time.Second)
				r.Count("sessions_after_outage", 1)
			} else {
				sesh = g.makeSession(remote, auth, c.Transport)
			}
			if sesh == nil {
				vkind, vdet = "handshake-refused", "a correctly configured client cannot establish its session: its handshakes keep failing (in every fourth case after an outage of more than three minutes during which dials failed)"
				return
			}
			st, err := sesh.OpenStream()
			if err != nil {
				vkind, vdet = "open", err.Error()
				return
			}
			msg := vk.Datagram(66, uint32(i), 1024)
			st.Write(msg)
			got := make([]byte, len(msg))
			st.SetReadDeadline(time.Now().Add(time.Minute))
			if _, err := io.ReadFull(st, got); err != nil || !bytes.Equal(got, msg) {
				vkind, vdet = "echo", fmt.Sprintf("1 KiB echo through the whole system failed: %v", err)
				return
			}
			// the panel must hold a session under (UID, sid) with the client's key and flags
			var arr [16]byte
			copy(arr[:], c.UID)
			g.sta.Panel.activeUsersM.RLock()
			u := g.sta.Panel.activeUsers[arr]
			g.sta.Panel.activeUsersM.RUnlock()
			if u == nil {
				vkind, vdet = "not-registered", "no active user registered for the client's UID"
				return
			}
			u.sessionsM.RLock()
			ss := u.sessions[c.SessionID]
			u.sessionsM.RUnlock()
			if ss == nil {
				vkind, vdet = "not-registered", fmt.Sprintf("no session registered under the client's session id %d", c.SessionID)
				return
			}
			if ss.GetSessionKey() != sesh.GetSessionKey() {
				vkind, vdet = "session-key", "server-side session key differs from the client's"
				return
			}
			if ss.Unordered != c.UDP {
				vkind, vdet = "unordered-flag", "server-side session has the wrong ordered/unordered mode"
			}
			want := map[string]string{"shadowsocks": "tcp!10.0.0.1:1111", "m": "tcp!10.0.0.4:4444", "abcdefghijkl": "tcp!10.0.0.5:5555", "openvpn": "udp!10.0.0.2:2222"}[c.Method]
			g.mu.Lock()
			if len(g.proxyDials) == 0 || g.proxyDials[0] != want {
				vkind, vdet = "proxy-address", fmt.Sprintf("proxy dialled %v, the configured method %q maps to %s", g.proxyDials, c.Method, want)
			}
			g.mu.Unlock()
			sesh.Close()
			vk.Wait()
		})
		if p != nil && !leftover && vkind == "" {
			vkind, vdet = "panic", fmt.Sprint(p)
		}
		r.Count("evaluations", 1)
		r.Count("system_sessions", 1)
		r.Distinct("cases", vk.Hash64("sys", c))
		if vkind != "" {
			r.Violation(id, "C06:"+vkind, fmt.Sprintf("%s; configuration %+v", vdet, c), c)
		} else {
			r.Pass(id)
		}
	}
}
