package server

// C15 - connections join the right session; the per-user session cap is never exceeded.
// Whole-system rig with a bbolt user database. Every connection's handshake is driven
// individually so that each returned session key is observed; the history of
// handshake(uid, sid) -> key | refused and close(uid, sid) is checked by porcupine against the
// sequential model "get-or-create with cap", partitioned per UID.

import (
	"fmt"
	"os"
	"runtime"
	"sort"
	"strings"
	"sync"
	"sync/atomic"
	"testing"
	"time"

	"github.com/anishathalye/porcupine"
	"github.com/cbeuw/Cloak/internal/client"
	mux "github.com/cbeuw/Cloak/internal/multiplex"
	"github.com/cbeuw/Cloak/internal/server/usermanager"
	"github.com/cbeuw/Cloak/internal/verifhook"
	vk "github.com/cbeuw/Cloak/internal/verifkit"
)

type c15In struct {
	Op  string // hs, close, setcap, setok
	UID int
	SID uint32
	Val int
}

type c15Out struct {
	Key string // "" = refused / n.a.
}

type c15State struct {
	Cap  int
	OK   bool   // credit and expiry allow new sessions
	Live string // sorted "sid=key;" list
}

func liveMap(s string) map[string]string {
	m := map[string]string{}
	for _, e := range strings.Split(s, ";") {
		if e == "" {
			continue
		}
		kv := strings.SplitN(e, "=", 2)
		m[kv[0]] = kv[1]
	}
	return m
}

func liveStr(m map[string]string) string {
	var ks []string
	for k := range m {
		ks = append(ks, k)
	}
	sort.Strings(ks)
	var b strings.Builder
	for _, k := range ks {
		b.WriteString(k + "=" + m[k] + ";")
	}
	return b.String()
}

func c15Partition(h []porcupine.Operation) [][]porcupine.Operation {
	by := map[int][]porcupine.Operation{}
	for _, o := range h {
		u := o.Input.(c15In).UID
		by[u] = append(by[u], o)
	}
	var out [][]porcupine.Operation
	for _, v := range by {
		out = append(out, v)
	}
	return out
}

// c15Step is the deterministic part of the model: get-or-create with a cap.
func c15Step(s c15State, i c15In, o c15Out) (bool, c15State) {
	switch i.Op {
	case "setcap":
		s.Cap = i.Val
		return true, s
	case "setok":
		s.OK = i.Val == 1
		return true, s
	case "close":
		m := liveMap(s.Live)
		delete(m, fmt.Sprint(i.SID))
		s.Live = liveStr(m)
		return true, s
	case "hs":
		m := liveMap(s.Live)
		sid := fmt.Sprint(i.SID)
		if k, ok := m[sid]; ok {
			return o.Key == k, s // joining a live session must return its key
		}
		if len(m) < s.Cap && s.OK {
			if o.Key == "" {
				return false, s // must be admitted
			}
			for _, k := range m {
				if k == o.Key {
					return false, s // a new session must get a fresh key
				}
			}
			m[sid] = o.Key
			s.Live = liveStr(m)
			return true, s
		}
		return o.Key == "", s // cap reached or no credit / expired: must be refused
	}
	return false, s
}

// The model is nondeterministic in one respect: while a user is without credit or past expiry, the
// server's periodic usage upload cuts that user off (property C16) at a moment the history does
// not show; before any operation of such a user all of its sessions may therefore have gone.
var c15ND = porcupine.NondeterministicModel{
	Partition: c15Partition,
	Init:      func() []interface{} { return []interface{}{c15State{Cap: -1, OK: true}} },
	Step: func(st, in, out interface{}) []interface{} {
		s := st.(c15State)
		cands := []c15State{s}
		if !s.OK && s.Live != "" {
			c := s
			c.Live = ""
			cands = append(cands, c)
		}
		var res []interface{}
		for _, c := range cands {
			if ok, n := c15Step(c, in.(c15In), out.(c15Out)); ok {
				res = append(res, n)
			}
		}
		return res
	},
	Equal: func(a, b interface{}) bool { return a.(c15State) == b.(c15State) },
	DescribeOperation: func(in, out interface{}) string {
		i := in.(c15In)
		return fmt.Sprintf("%s(uid%d, sid %d, %d) -> %q", i.Op, i.UID, i.SID, i.Val, out.(c15Out).Key)
	},
}

var c15Model = c15ND.ToModel()

// c15Det: the same model without the cut-off nondeterminism.
var c15Det = porcupine.Model{
	Partition: c15Partition,
	Init:      func() interface{} { return c15State{Cap: -1, OK: true} },
	Step: func(st, in, out interface{}) (bool, interface{}) {
		ok, n := c15Step(st.(c15State), in.(c15In), out.(c15Out))
		return ok, n
	},
	DescribeOperation: c15ND.DescribeOperation,
}

type c15Conn struct {
	uid int
	sid uint32
	tr  client.Transport
}

type c15Run struct {
	g     *srvRig
	uids  [][]byte
	clock atomic.Int64
	mu    sync.Mutex
	hist  []porcupine.Operation
	conns map[[2]uint32][]client.Transport // (uid, sid) -> client ends of admitted connections
	seshs map[[2]uint32]*mux.Session       // client-side sessions keeping the server sessions busy (an open stream)
	keys  map[string][2]uint32             // every key ever handed out -> owner
	viol  string
	vkind string
	r     *vk.Reporter
}

func (c *c15Run) record(cid int, in c15In, call int64, out c15Out, ret int64) {
	c.mu.Lock()
	c.hist = append(c.hist, porcupine.Operation{ClientId: cid, Input: in, Call: call, Output: out, Return: ret})
	c.mu.Unlock()
}

// burst performs len(reqs) handshakes simultaneously; refused ones are judged at quiescence.
func (c *c15Run) burst(reqs [][2]uint32, transport string, hold bool) {
	type pend struct {
		in   c15In
		call int64
		done chan struct{}
		key  [32]byte
		err  error
		tr   client.Transport
	}
	var ps []*pend
	var gate chan struct{}
	if hold {
		// park every connection between user lookup and session creation, release together
		gate = make(chan struct{})
		var parked atomic.Int64
		verifhook.Set("disp.userResolved", func() {
			parked.Add(1)
			<-gate
		})
		c.r.Count("forced_admission_rendezvous", 1)
	}
	for i, rq := range reqs {
		p := &pend{in: c15In{Op: "hs", UID: int(rq[0]), SID: rq[1]}, done: make(chan struct{})}
		ps = append(ps, p)
		cfg := cliCfg{UID: c.uids[rq[0]], Method: "shadowsocks", Enc: "aes-gcm", Transport: transport, Browser: "firefox", NumConn: 1, SessionID: rq[1]}
		_, remote, auth, err := c.g.clientConfigs(cfg)
		if err != nil {
			panic(err)
		}
		_ = i
		go func() {
			defer close(p.done)
			conn, err := c.g.dialerFor(transport).Dial("tcp", "")
			if err != nil {
				p.err = err
				return
			}
			p.tr = remote.Transport.CreateTransport()
			p.call = c.clock.Add(1)
			p.key, p.err = p.tr.Handshake(conn, auth)
		}()
	}
	if hold {
		vk.Wait()
		close(gate)
		verifhook.Set("disp.userResolved", nil)
	}
	vk.Wait()
	time.Sleep(20 * time.Second) // past the first-packet timeout; virtual
	vk.Wait()
	ret := c.clock.Add(1)
	for _, p := range ps {
		out := c15Out{}
		select {
		case <-p.done:
			if p.err == nil {
				out.Key = fmt.Sprintf("%x", p.key[:8])
				k := [2]uint32{uint32(p.in.UID), p.in.SID}
				c.mu.Lock()
				c.conns[k] = append(c.conns[k], p.tr)
				// keep the session alive: a session without streams closes itself after 30 s
				if cs := c.seshs[k]; cs != nil && !cs.IsClosed() {
					cs.AddConnection(p.tr)
				} else {
					obf, _ := muxObfuscator(1, p.key) // aes-gcm
					cs = muxSession(p.in.SID, obf)
					cs.AddConnection(p.tr)
					c.seshs[k] = cs
					if st, err := cs.OpenStream(); err == nil {
						st.Write([]byte("keepalive"))
					}
				}
				if owner, ok := c.keys[out.Key]; ok && owner != k && c.vkind == "" {
					c.vkind, c.viol = "key-shared", fmt.Sprintf("connections for (uid%d, sid %d) and (uid%d, sid %d) were given the same session key", owner[0], owner[1], k[0], k[1])
				}
				c.keys[out.Key] = k
				c.mu.Unlock()
			}
		default:
			// still blocked: the server neither replied nor closed; counts as refused
		}
		if p.call == 0 {
			p.call = ret
		}
		c.record(int(p.in.SID%64), p.in, p.call, out, ret)
		c.r.Count("handshakes", 1)
		if out.Key == "" {
			c.r.Count("refused", 1)
		}
	}
}

func (c *c15Run) closeSession(uid int, sid uint32) {
	k := [2]uint32{uint32(uid), sid}
	c.mu.Lock()
	trs := c.conns[k]
	cs := c.seshs[k]
	delete(c.conns, k)
	delete(c.seshs, k)
	c.mu.Unlock()
	if len(trs) == 0 {
		return
	}
	call := c.clock.Add(1)
	if cs != nil {
		cs.Close()
	}
	for _, tr := range trs {
		tr.Close()
	}
	vk.Wait()
	time.Sleep(time.Second)
	vk.Wait()
	c.record(63, c15In{Op: "close", UID: uid, SID: sid}, call, c15Out{}, c.clock.Add(1))
}

func (c *c15Run) admin(uid int, op string, val int) {
	call := c.clock.Add(1)
	u := usermanager.UserInfo{UID: c.uids[uid]}
	switch op {
	case "setcap":
		u.SessionsCap = usermanager.JustInt32(int32(val))
	case "setok":
		switch val {
		case 1:
			u.UpCredit, u.DownCredit, u.ExpiryTime = usermanager.JustInt64(1<<40), usermanager.JustInt64(1<<40), usermanager.JustInt64(time.Now().Unix()+1e7)
		case 0:
			u.UpCredit = usermanager.JustInt64(0)
		case -1:
			u.ExpiryTime = usermanager.JustInt64(time.Now().Unix() - 5)
			val = 0
		case -2:
			u.DownCredit = usermanager.JustInt64(-3)
			val = 0
		}
	}
	if err := c.g.sta.Panel.Manager.WriteUserInfo(u); err != nil {
		panic(err)
	}
	c.record(62, c15In{Op: op, UID: uid, Val: val}, call, c15Out{}, c.clock.Add(1))
}

// capInvariant reads the panel at a quiescent point.
func (c *c15Run) capInvariant(caps []int) {
	for ui, uid := range c.uids {
		var arr [16]byte
		copy(arr[:], uid)
		c.g.sta.Panel.activeUsersM.RLock()
		u := c.g.sta.Panel.activeUsers[arr]
		c.g.sta.Panel.activeUsersM.RUnlock()
		if u == nil {
			continue
		}
		if n := u.NumSession(); n > caps[ui] && c.vkind == "" {
			c.vkind, c.viol = "cap-exceeded", fmt.Sprintf("user uid%d has %d concurrent sessions, its configured cap is %d", ui, n, caps[ui])
		}
		c.r.Count("cap_invariant_checks", 1)
	}
}

type yieldingManager struct {
	usermanager.UserManager
}

func (y yieldingManager) AuthenticateUser(uid []byte) (int64, int64, error) {
	for i := 0; i < 8; i++ {
		runtime.Gosched()
	}
	a, b, err := y.UserManager.AuthenticateUser(uid)
	for i := 0; i < 8; i++ {
		runtime.Gosched()
	}
	return a, b, err
}

func (y yieldingManager) AuthoriseNewSession(uid []byte, a usermanager.AuthorisationInfo) error {
	for i := 0; i < 8; i++ {
		runtime.Gosched()
	}
	err := y.UserManager.AuthoriseNewSession(uid, a)
	for i := 0; i < 8; i++ {
		runtime.Gosched()
	}
	return err
}

func TestVerif_C15(t *testing.T) {
	r := vk.Open()
	defer r.Close()
	n := r.Pick(48, 2400)
	for i := 0; i < n; i++ {
		id := fmt.Sprintf("history-%d", i)
		if !r.Mine(id) {
			continue
		}
		rng := r.Rand("c15", i)
		nu := 1 + rng.IntN(3)
		caps := make([]int, nu)
		r.Case(id, map[string]any{"users": nu})
		run := &c15Run{r: r, conns: map[[2]uint32][]client.Transport{}, seshs: map[[2]uint32]*mux.Session{}, keys: map[string][2]uint32{}}
		procs := []int{2, 4, 16}[rng.IntN(3)]
		prev := runtime.GOMAXPROCS(procs)
		p, leftover := vk.InBubble(t, func() {
			g := newSrvRig(t, srvOpts{DB: true})
			defer g.cleanup()
			g.sta.Panel.Manager = yieldingManager{g.sta.Panel.Manager}
			run.g = g
			g.serve()
			go g.echoProxy()
			transport := []string{"direct", "direct", "cdn"}[rng.IntN(3)]
			for u := 0; u < nu; u++ {
				run.uids = append(run.uids, randUID(rng))
				caps[u] = rng.IntN(5)
				if u == 0 && caps[u] == 0 {
					caps[u] = 2
				}
				g.sta.Panel.Manager.WriteUserInfo(usermanager.UserInfo{UID: run.uids[u], SessionsCap: usermanager.JustInt32(int32(caps[u])), UpRate: usermanager.JustInt64(1 << 30), DownRate: usermanager.JustInt64(1 << 30),
					UpCredit: usermanager.JustInt64(1 << 40), DownCredit: usermanager.JustInt64(1 << 40), ExpiryTime: usermanager.JustInt64(time.Now().Unix() + 1e7)})
				run.record(62, c15In{Op: "setcap", UID: u, Val: caps[u]}, run.clock.Add(1), c15Out{}, run.clock.Add(1))
			}
			// in every third history the very first handshakes of a user arrive together while the user is
			// not active yet (its record in the panel is created by whichever comes first)
			if i%3 == 0 {
				u := uint32(rng.IntN(nu))
				var reqs [][2]uint32
				for k := 0; k < 2+rng.IntN(7); k++ {
					reqs = append(reqs, [2]uint32{u, uint32(2000 + k%(1+rng.IntN(4)))})
				}
				run.burst(reqs, transport, false)
				r.Count("first_contact_bursts", 1)
			}
			// anchor session per user so that the user's last session never closes during the history
			for u := 0; u < nu; u++ {
				if caps[u] > 0 {
					run.burst([][2]uint32{{uint32(u), 1000}}, transport, false)
				}
			}
			notOK := make([]bool, nu)
			steps := 4 + rng.IntN(5)
			for s := 0; s < steps && run.vkind == ""; s++ {
				switch rng.IntN(6) {
				case 0, 1, 2, 3: // burst of simultaneous handshakes
					nreq := 2 + rng.IntN(r.Pick(10, 31))
					npairs := 1 + rng.IntN(4)
					var pairs [][2]uint32
					for k := 0; k < npairs; k++ {
						pairs = append(pairs, [2]uint32{uint32(rng.IntN(nu)), uint32(1 + rng.IntN(6))})
					}
					var reqs [][2]uint32
					if rng.IntN(3) == 0 {
						// all distinct new session ids for one user: the cap race
						u := uint32(rng.IntN(nu))
						for k := 0; k < nreq; k++ {
							reqs = append(reqs, [2]uint32{u, uint32(100 + s*40 + k)})
						}
					} else {
						for k := 0; k < nreq; k++ {
							reqs = append(reqs, pairs[rng.IntN(len(pairs))])
						}
					}
					run.burst(reqs, transport, rng.IntN(2) == 0)
				case 4: // close a non-anchor session
					run.mu.Lock()
					var cand [][2]uint32
					for k := range run.conns {
						if k[1] != 1000 {
							cand = append(cand, k)
						}
					}
					run.mu.Unlock()
					sort.Slice(cand, func(a, b int) bool { return cand[a][0]*10000+cand[a][1] < cand[b][0]*10000+cand[b][1] })
					if len(cand) > 0 {
						k := cand[rng.IntN(len(cand))]
						run.closeSession(int(k[0]), k[1])
					}
				default: // admin change: cap, credit, expiry
					u := rng.IntN(nu)
					switch rng.IntN(3) {
					case 0:
						run.mu.Lock()
						live := 0
						for k := range run.conns {
							if int(k[0]) == u {
								live++
							}
						}
						run.mu.Unlock()
						nc := live + rng.IntN(3) // never below the number of live sessions (the model is get-or-create with cap)
						caps[u] = nc
						run.admin(u, "setcap", nc)
					case 1:
						run.admin(u, "setok", []int{0, -1, -2}[rng.IntN(3)])
						notOK[u] = true
					default:
						if notOK[u] {
							// while the user was without credit / past expiry the server may have cut it off at a
							// moment the history does not show. Before credit is restored, close (and record)
							// whatever may be left, so that the model's state is certain again, then re-anchor
							run.mu.Lock()
							var left [][2]uint32
							for k := range run.conns {
								if int(k[0]) == u {
									left = append(left, k)
								}
							}
							run.mu.Unlock()
							sort.Slice(left, func(a, b int) bool { return left[a][1] < left[b][1] })
							for _, k := range left {
								run.closeSession(u, k[1])
							}
							run.admin(u, "setok", 1)
							notOK[u] = false
							if caps[u] > 0 {
								run.burst([][2]uint32{{uint32(u), uint32(3000 + s)}}, transport, false)
							}
						} else {
							run.admin(u, "setok", 1)
						}
					}
				}
				run.capInvariant(caps)
			}
			run.mu.Lock()
			for _, trs := range run.conns {
				for _, tr := range trs {
					tr.Close()
				}
			}
			run.mu.Unlock()
			vk.Wait()
		})
		runtime.GOMAXPROCS(prev)
		verifhook.Set("disp.userResolved", nil)
		if p != nil && !leftover && run.vkind == "" {
			run.vkind, run.viol = "panic", fmt.Sprint(p)
		}
		r.Count("evaluations", 1)
		r.Distinct("cases", vk.Hash64("c15", i))
		if run.vkind == "" {
			// first the deterministic model (no cut-offs): whatever it accepts the nondeterministic one
			// accepts too, and it is much cheaper to search; only histories it cannot linearize (a user
			// was cut off in the middle, or a real violation) go to the nondeterministic model
			res, _ := porcupine.CheckOperationsVerbose(c15Det, run.hist, time.Minute)
			if res == porcupine.Ok {
				r.Count("linearized_by_deterministic_model", 1)
			} else {
				res, _ = porcupine.CheckOperationsVerbose(c15Model, run.hist, 5*time.Minute)
				r.Count("needed_nondeterministic_model", 1)
				if os.Getenv("C15_DUMP") != "" {
					for _, o := range run.hist {
						fmt.Fprintf(os.Stderr, "C15HIST [%d,%d] %s\n", o.Call, o.Return, c15ND.DescribeOperation(o.Input, o.Output))
					}
				}
			}
			switch res {
			case porcupine.Illegal:
				var lines []string
				for _, o := range run.hist {
					lines = append(lines, fmt.Sprintf("[%d,%d] %s", o.Call, o.Return, c15Model.DescribeOperation(o.Input, o.Output)))
				}
				run.vkind, run.viol = "not-linearizable", "the recorded history of handshakes/closes/admin changes has no linearization under the model get-or-create-with-cap (a join got another key, a new session reused a key, a session above the cap or without credit was admitted, or an admissible one was refused): "+strings.Join(lines, " | ")
			case porcupine.Unknown:
				r.Inconclusive(id, "porcupine timed out")
				continue
			}
		}
		if i < 2 && len(run.hist) > 0 {
			var lines []string
			for _, o := range run.hist[:min(len(run.hist), 12)] {
				lines = append(lines, c15Model.DescribeOperation(o.Input, o.Output))
			}
			r.Sample(map[string]any{"history_prefix": lines, "operations": len(run.hist)})
		}
		r.Count("history_operations", int64(len(run.hist)))
		if run.vkind != "" {
			r.Violation(id, "C15:"+run.vkind, run.viol, nil)
		} else {
			r.Pass(id)
		}
	}
}
