package server

// Server-side rig shared by the C06..C10, C15..C17 checks: a real State (optionally with a bbolt
// user database), the real Serve loop, and the real client package, all wired through the
// hostile in-memory network inside a synctest bubble.

import (
	"crypto/ecdsa"
	"crypto/elliptic"
	"crypto/rand"
	"crypto/tls"
	"crypto/x509"
	"crypto/x509/pkix"
	"fmt"
	"io"
	"math/big"
	mrand "math/rand/v2"
	"net"
	"os"
	"path/filepath"
	"runtime"
	"strings"
	"sync"
	"testing"
	"time"

	"github.com/cbeuw/Cloak/internal/client"
	"github.com/cbeuw/Cloak/internal/common"
	"github.com/cbeuw/Cloak/internal/ecdh"
	mux "github.com/cbeuw/Cloak/internal/multiplex"
	"github.com/cbeuw/Cloak/internal/server/usermanager"
	"github.com/cbeuw/Cloak/internal/verifhook"
	vk "github.com/cbeuw/Cloak/internal/verifkit"
	log "github.com/sirupsen/logrus"
)

func init() {
	log.SetOutput(io.Discard)
	log.SetLevel(log.PanicLevel)
}

type srvOpts struct {
	Bypass    [][]byte
	AdminUID  []byte
	DB        bool   // use a bbolt database in a temp dir
	DBPath    string // reuse an existing database
	Methods   map[string][]string
	NowOffset func() time.Duration // server clock = time.Now() + NowOffset()
	// RedirNoPort: RedirAddr is given without a port (the port the peer connected to is used)
	RedirNoPort bool
}

type srvRig struct {
	t      *testing.T
	net    *vk.Net
	sta    *State
	lis    *vk.Listener // where ck-server accepts
	proxyL *vk.Listener // proxy server behind ck-server
	redirL *vk.Listener // redirect target
	cdnL   *vk.Listener // TLS-terminating "CDN" in front of ck-server
	pub    [32]byte
	pv     [32]byte
	dbPath string
	world  common.WorldState

	mu             sync.Mutex
	clientsStopped bool
	nowHook        func() // called on every read of the server's clock (used to hold a particular caller)
	proxyDials     []string
	hsWindow       int      // window of the pipes componentHandshake creates (0 = unbounded)
	hsPipe         *vk.Pipe // the pipe of the last componentHandshake
	redirDials     []string
}

type recDialer struct {
	l    *vk.Listener
	note func(addr string)
}

func (d *recDialer) Dial(network, address string) (net.Conn, error) {
	d.note(network + "!" + address)
	return d.l.Dial(network, address)
}

var (
	cdnCertOnce sync.Once
	cdnCert     tls.Certificate
)

func cdnCertificate() tls.Certificate {
	cdnCertOnce.Do(func() {
		key, _ := ecdsa.GenerateKey(elliptic.P256(), rand.Reader)
		tmpl := &x509.Certificate{SerialNumber: big.NewInt(1), Subject: pkix.Name{CommonName: "cdn.example"},
			NotBefore: time.Unix(0, 0), NotAfter: time.Unix(4000000000, 0), DNSNames: []string{"cdn.example"}}
		der, err := x509.CreateCertificate(rand.Reader, tmpl, tmpl, &key.PublicKey, key)
		if err != nil {
			panic(err)
		}
		cdnCert = tls.Certificate{Certificate: [][]byte{der}, PrivateKey: key}
	})
	return cdnCert
}

func newSrvRig(t *testing.T, o srvOpts) *srvRig {
	g := &srvRig{t: t, net: vk.NewNet()}
	pv, pub, err := ecdh.GenerateKey(rand.Reader)
	if err != nil {
		panic(err)
	}
	g.pv = *(pv.(*[32]byte))
	g.pub = *(pub.(*[32]byte))
	g.world = common.WorldState{Rand: rand.Reader, Now: func() time.Time {
		g.mu.Lock()
		h := g.nowHook
		g.mu.Unlock()
		if h != nil {
			h()
		}
		if o.NowOffset != nil {
			return time.Now().Add(o.NowOffset())
		}
		return time.Now()
	}}
	methods := o.Methods
	if methods == nil {
		methods = map[string][]string{"shadowsocks": {"tcp", "10.0.0.1:1111"}, "openvpn": {"udp", "10.0.0.2:2222"}, "m": {"tcp", "10.0.0.4:4444"}, "abcdefghijkl": {"tcp", "10.0.0.5:5555"}}
	}
	raw := RawConfig{ProxyBook: methods, BypassUID: o.Bypass, RedirAddr: "10.0.0.3:80", PrivateKey: g.pv[:], AdminUID: o.AdminUID, KeepAlive: 0}
	if o.RedirNoPort {
		raw.RedirAddr = "10.0.0.3"
	}
	if o.DB || o.DBPath != "" {
		g.dbPath = o.DBPath
		if g.dbPath == "" {
			dir, err := os.MkdirTemp("", "verif-db-")
			if err != nil {
				panic(err)
			}
			g.dbPath = filepath.Join(dir, "users.db")
		}
		raw.DatabasePath = g.dbPath
		if len(raw.AdminUID) == 0 {
			raw.AdminUID = []byte("ADMINADMINADMIN!")
		}
	}
	sta, err := InitState(raw, g.world)
	if err != nil {
		panic(fmt.Sprintf("InitState: %v", err))
	}
	g.sta = sta
	g.lis = g.net.Listen("10.9.9.9:443")
	g.proxyL = g.net.Listen("10.0.0.1:1111")
	g.redirL = g.net.Listen("10.0.0.3:80")
	g.cdnL = g.net.Listen("10.8.8.8:443")
	sta.ProxyDialer = &recDialer{g.proxyL, func(a string) { g.mu.Lock(); g.proxyDials = append(g.proxyDials, a); g.mu.Unlock() }}
	sta.RedirDialer = &recDialer{g.redirL, func(a string) { g.mu.Lock(); g.redirDials = append(g.redirDials, a); g.mu.Unlock() }}
	return g
}

// serve starts the real accept loop and the CDN terminator.
func (g *srvRig) serve() {
	go Serve(g.lis, g.sta)
	go g.cdnLoop()
}

// cdnLoop terminates the client's real TLS handshake and forwards the plaintext to ck-server,
// as a CDN in front of a Cloak origin does.
func (g *srvRig) cdnLoop() {
	cfg := &tls.Config{Certificates: []tls.Certificate{cdnCertificate()}}
	for {
		c, err := g.cdnL.Accept()
		if err != nil {
			return
		}
		go func() {
			tc := tls.Server(c, cfg)
			if err := tc.Handshake(); err != nil {
				c.Close()
				return
			}
			origin, err := g.lis.Dial("tcp", "")
			if err != nil {
				tc.Close()
				return
			}
			go func() { io.Copy(origin, tc); origin.Close(); tc.Close() }()
			io.Copy(tc, origin)
			tc.Close()
			origin.Close()
		}()
	}
}

// cdnTerminate terminates TLS on one accepted conn and returns the plaintext conn (component level).
func cdnTerminate(c net.Conn) (net.Conn, error) {
	tc := tls.Server(c, &tls.Config{Certificates: []tls.Certificate{cdnCertificate()}})
	if err := tc.Handshake(); err != nil {
		return nil, err
	}
	return tc, nil
}

func (g *srvRig) cleanup() {
	if g.dbPath != "" {
		os.RemoveAll(filepath.Dir(g.dbPath))
	}
}

type cliCfg struct {
	UID        []byte
	Method     string
	Enc        string
	NumConn    int
	UDP        bool
	Browser    string
	Transport  string
	ServerName string
	Offset     time.Duration // client clock = time.Now() + Offset
	AbsNow     *time.Time    // when set: the client clock is stuck at this instant (any year)
	SessionID  uint32
}

func (g *srvRig) clientConfigs(c cliCfg) (client.LocalConnConfig, client.RemoteConnConfig, client.AuthInfo, error) {
	raw := client.RawConfig{ServerName: c.ServerName, ProxyMethod: c.Method, EncryptionMethod: c.Enc, UID: c.UID, PublicKey: g.pub[:], NumConn: c.NumConn,
		UDP: c.UDP, BrowserSig: c.Browser, Transport: c.Transport, RemoteHost: "10.9.9.9", RemotePort: "443", LocalHost: "127.0.0.1", LocalPort: "1984"}
	if raw.ServerName == "" {
		raw.ServerName = "www.example.com"
	}
	off := c.Offset
	ws := common.WorldState{Rand: rand.Reader, Now: func() time.Time { return time.Now().Add(off) }}
	if c.AbsNow != nil {
		abs := *c.AbsNow
		ws.Now = func() time.Time { return abs }
	}
	l, r, a, err := raw.ProcessRawConfig(ws)
	a.SessionId = c.SessionID
	return l, r, a, err
}

// dialerFor returns the dialer a client of this transport must use. It can be stopped: after
// stopClients every Dial parks forever, which ends the endless retry loop of client.MakeSession
// (a durably blocked goroutine lets the bubble finish; a retrying one would not).
func (g *srvRig) dialerFor(transport string) common.Dialer {
	var inner common.Dialer = g.lis
	if transport == "cdn" {
		inner = g.cdnL
	}
	return &stopDialer{g: g, inner: inner}
}

type stopDialer struct {
	g     *srvRig
	inner common.Dialer
}

func (d *stopDialer) Dial(network, address string) (net.Conn, error) {
	d.g.mu.Lock()
	stopped := d.g.clientsStopped
	d.g.mu.Unlock()
	if stopped {
		<-make(chan struct{}) // park forever
	}
	return d.inner.Dial(network, address)
}

func (g *srvRig) stopClients() {
	g.mu.Lock()
	g.clientsStopped = true
	g.mu.Unlock()
}

// makeSessionWithin is makeSession that keeps waiting (virtual time) up to d for the session.
func (g *srvRig) makeSessionWithin(remote client.RemoteConnConfig, auth client.AuthInfo, transport string, d time.Duration) *mux.Session {
	ch := make(chan *mux.Session, 1)
	go func() { ch <- client.MakeSession(remote, auth, g.dialerFor(transport)) }()
	deadline := time.Now().Add(d)
	for {
		vk.Wait()
		select {
		case s := <-ch:
			return s
		default:
		}
		if !time.Now().Before(deadline) {
			g.stopClients()
			return nil
		}
		time.Sleep(5 * time.Second)
	}
}

// makeSession runs client.MakeSession; nil means it did not get its connections established by
// the time every goroutine was blocked (MakeSession itself retries forever).
func (g *srvRig) makeSession(remote client.RemoteConnConfig, auth client.AuthInfo, transport string) *mux.Session {
	ch := make(chan *mux.Session, 1)
	go func() { ch <- client.MakeSession(remote, auth, g.dialerFor(transport)) }()
	vk.Wait()
	select {
	case s := <-ch:
		return s
	default:
		g.stopClients()
		return nil
	}
}

// echoProxy serves the proxy side: every connection echoes what it receives.
func (g *srvRig) echoProxy() {
	for {
		c, err := g.proxyL.Accept()
		if err != nil {
			return
		}
		go func() { io.Copy(c, c); c.Close() }()
	}
}

var encNames = []string{"plain", "aes-256-gcm", "chacha20-poly1305", "aes-128-gcm"}
var encIDs = map[string]byte{"plain": mux.EncryptionMethodPlain, "aes-256-gcm": mux.EncryptionMethodAES256GCM, "aes-gcm": mux.EncryptionMethodAES256GCM, "chacha20-poly1305": mux.EncryptionMethodChaha20Poly1305, "aes-128-gcm": mux.EncryptionMethodAES128GCM}

func randUID(rng *mrand.Rand) []byte {
	b := make([]byte, 16)
	for i := range b {
		b[i] = byte(rng.Uint32())
	}
	return b
}

func muxObfuscator(method byte, key [32]byte) (mux.Obfuscator, error) {
	return mux.MakeObfuscator(method, key)
}

func muxSession(id uint32, o mux.Obfuscator) *mux.Session {
	return mux.MakeSession(id, mux.SessionConfig{Obfuscator: o, MsgOnWireSizeLimit: appDataMaxLength, InactivityTimeout: 100 * time.Hour})
}

func netConn(c net.Conn) net.Conn { return c }

// authWindow forces the overlap "connection A is held between authorisation and session
// attachment while connection B arrives and completes": A parks at hook disp.userResolved, B runs
// through, then A is released. It returns, per connection, the client's handshake result, the
// tapped pipe and the server-side session key (nil when no session is registered).
type awConn struct {
	uid     []byte
	sid     uint32
	key     [32]byte
	err     error
	done    bool
	pipe    *vk.Pipe
	srvKey  *[32]byte
	cliConn client.Transport
}

type gateManager struct {
	usermanager.UserManager
	once    *sync.Once
	release chan struct{}
}

func (m gateManager) AuthoriseNewSession(uid []byte, a usermanager.AuthorisationInfo) error {
	first := false
	m.once.Do(func() { first = true })
	if first {
		<-m.release // a slow user manager (remote API, busy disk): the first caller waits here
	}
	return m.UserManager.AuthoriseNewSession(uid, a)
}

// mode "hook": A parks at disp.userResolved; mode "manager": A parks inside the user manager's
// AuthoriseNewSession (database users), i.e. after everything dispatchConnection does before it.
func authWindow(t *testing.T, transport string, mode string, rng *mrand.Rand) (res [2]*awConn, note string) {
	uidA, uidB := randUID(rng), randUID(rng)
	release := make(chan struct{})
	var once sync.Once
	var g *srvRig
	if mode == "manager" {
		g = newSrvRig(t, srvOpts{DB: true})
		defer g.cleanup()
		j := usermanager.JustInt64
		for _, u := range [][]byte{uidA, uidB} {
			g.sta.Panel.Manager.WriteUserInfo(usermanager.UserInfo{UID: u, SessionsCap: usermanager.JustInt32(5), UpRate: j(1 << 30), DownRate: j(1 << 30), UpCredit: j(1 << 40), DownCredit: j(1 << 40), ExpiryTime: j(time.Now().Unix() + 1e6)})
		}
		g.sta.Panel.Manager = gateManager{g.sta.Panel.Manager, &once, release}
	} else {
		g = newSrvRig(t, srvOpts{Bypass: [][]byte{uidA, uidB}})
		verifhook.Set("disp.userResolved", func() {
			first := false
			once.Do(func() { first = true })
			if first {
				<-release
			}
		})
		defer verifhook.Set("disp.userResolved", nil)
	}
	g.serve()
	defer g.stopClients()
	start := func(uid []byte, sid uint32) *awConn {
		c := &awConn{uid: uid, sid: sid}
		cfg := cliCfg{UID: uid, Method: "shadowsocks", Enc: "aes-gcm", Transport: transport, Browser: "firefox", NumConn: 1, SessionID: sid}
		_, remote, auth, err := g.clientConfigs(cfg)
		if err != nil {
			c.err, c.done = err, true
			return c
		}
		var l *vk.Listener = g.lis
		if transport == "cdn" {
			l = g.cdnL
		}
		conn, pipe, _ := l.DialPipe()
		c.pipe = pipe
		c.cliConn = remote.Transport.CreateTransport()
		go func() {
			c.key, c.err = c.cliConn.Handshake(conn, auth)
			c.done = true
		}()
		return c
	}
	a := start(uidA, 1)
	vk.Wait() // A is parked inside the server's dispatcher
	b := start(uidB, 2)
	vk.Wait()
	close(release)
	vk.Wait()
	time.Sleep(20 * time.Second)
	vk.Wait()
	for i, c := range []*awConn{a, b} {
		res[i] = c
		var arr [16]byte
		copy(arr[:], c.uid)
		g.sta.Panel.activeUsersM.RLock()
		u := g.sta.Panel.activeUsers[arr]
		g.sta.Panel.activeUsersM.RUnlock()
		if u != nil {
			u.sessionsM.RLock()
			if s := u.sessions[c.sid]; s != nil {
				k := s.GetSessionKey()
				c.srvKey = &k
			}
			u.sessionsM.RUnlock()
		}
	}
	// for the CDN transport the tapped pipe is client<->CDN (TLS); the origin side is not needed here
	return res, ""
}

// sameSessionBurst: n connections of one NEW session of one database user shake hands at the same
// time, against a user manager that yields the processor inside its queries (a slow database).
func sameSessionBurst(t *testing.T, transport string, n int, rng *mrand.Rand) (res []*awConn) {
	uid := randUID(rng)
	g := newSrvRig(t, srvOpts{DB: true})
	defer g.cleanup()
	j := usermanager.JustInt64
	g.sta.Panel.Manager.WriteUserInfo(usermanager.UserInfo{UID: uid, SessionsCap: usermanager.JustInt32(int32(1 + rng.IntN(3))), UpRate: j(1 << 30), DownRate: j(1 << 30), UpCredit: j(1 << 40), DownCredit: j(1 << 40), ExpiryTime: j(time.Now().Unix() + 1e6)})
	g.sta.Panel.Manager = yieldingManager{g.sta.Panel.Manager}
	g.serve()
	defer g.stopClients()
	sid := uint32(1 + rng.IntN(1000))
	for k := 0; k < n; k++ {
		c := &awConn{uid: uid, sid: sid}
		res = append(res, c)
		cfg := cliCfg{UID: uid, Method: "shadowsocks", Enc: "aes-gcm", Transport: transport, Browser: []string{"firefox", "chrome", "safari"}[k%3], NumConn: 1, SessionID: sid}
		_, remote, auth, err := g.clientConfigs(cfg)
		if err != nil {
			c.err, c.done = err, true
			continue
		}
		var l *vk.Listener = g.lis
		if transport == "cdn" {
			l = g.cdnL
		}
		conn, pipe, _ := l.DialPipe()
		c.pipe = pipe
		c.cliConn = remote.Transport.CreateTransport()
		go func() {
			c.key, c.err = c.cliConn.Handshake(conn, auth)
			c.done = true
		}()
	}
	vk.Wait()
	time.Sleep(20 * time.Second)
	vk.Wait()
	var arr [16]byte
	copy(arr[:], uid)
	g.sta.Panel.activeUsersM.RLock()
	u := g.sta.Panel.activeUsers[arr]
	g.sta.Panel.activeUsersM.RUnlock()
	for _, c := range res {
		if u != nil {
			u.sessionsM.RLock()
			if s := u.sessions[c.sid]; s != nil {
				k := s.GetSessionKey()
				c.srvKey = &k
			}
			u.sessionsM.RUnlock()
		}
	}
	return res
}

// calledFrom reports whether a function whose name contains substr is on the current stack.
func calledFrom(substr string) bool {
	pcs := make([]uintptr, 32)
	n := runtime.Callers(2, pcs)
	frames := runtime.CallersFrames(pcs[:n])
	for {
		f, more := frames.Next()
		if strings.Contains(f.Function, substr) {
			return true
		}
		if !more {
			return false
		}
	}
}
