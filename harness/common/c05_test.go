package common

// C05 - record framing survives any TCP segmentation and concurrent writers.
// TLSConn and WebSocketConn over the segmenting hostile network (verifkit/hnet): every message
// passed to one Write must come out of exactly one Read, whole, unaltered and in per-writer order.

import (
	"bytes"
	"fmt"
	"math/rand/v2"
	"net"
	"net/http"
	"net/url"
	"runtime"
	"sync"
	"testing"

	vk "github.com/cbeuw/Cloak/internal/verifkit"
	"github.com/gorilla/websocket"
)

type c05Conn interface {
	Read([]byte) (int, error)
	Write([]byte) (int, error)
	Close() error
}

// c05Pair builds a connected (writer, reader) pair of the given kind over one hnet pipe whose
// writer->reader direction is segmented by seg.
func c05Pair(n *vk.Net, kind string, seg vk.SegFunc, jitter int) (w, rd c05Conn, pipe *vk.Pipe, err error) {
	o := vk.PipeOpts{NoCut: true, Jitter: jitter}
	o.Seg[0] = seg
	p := n.NewPipe(o)
	if kind == "tls" {
		return NewTLSConn(p.A), NewTLSConn(p.B), p, nil
	}
	// websocket: real gorilla handshake over the pipe (client on A, upgrader on B)
	type res struct {
		c   *websocket.Conn
		err error
	}
	srvCh := make(chan res, 1)
	l := &oneListener{c: p.B, done: make(chan struct{})}
	go http.Serve(l, http.HandlerFunc(func(wr http.ResponseWriter, rq *http.Request) {
		up := websocket.Upgrader{ReadBufferSize: 16480, WriteBufferSize: 16480}
		c, err := up.Upgrade(wr, rq, nil)
		srvCh <- res{c, err}
	}))
	u, _ := url.Parse("ws://example.com/")
	cc, _, err := websocket.NewClient(p.A, u, http.Header{}, 16480, 16480)
	if err != nil {
		return nil, nil, p, err
	}
	sr := <-srvCh
	if sr.err != nil {
		return nil, nil, p, sr.err
	}
	return &WebSocketConn{Conn: cc}, &WebSocketConn{Conn: sr.c}, p, nil
}

type oneListener struct {
	c    net.Conn
	used bool
	mu   sync.Mutex
	done chan struct{}
}

func (l *oneListener) Accept() (net.Conn, error) {
	l.mu.Lock()
	if !l.used {
		l.used = true
		l.mu.Unlock()
		return l.c, nil
	}
	l.mu.Unlock()
	<-l.done
	return nil, fmt.Errorf("closed")
}
func (l *oneListener) Close() error {
	l.mu.Lock()
	defer l.mu.Unlock()
	select {
	case <-l.done:
	default:
		close(l.done)
	}
	return nil
}
func (l *oneListener) Addr() net.Addr { return vk.Addr("10.9.9.9:80") }

func c05Msg(writer, counter uint32, size int) []byte {
	if size >= 20 {
		return vk.Datagram(writer, counter, size)
	}
	b := make([]byte, size)
	for i := range b {
		b[i] = byte(int(counter)*31 + i*7 + int(writer))
	}
	return b
}

// c05Sequential: one writer sends msgs in order; the reader must get exactly them, one per Read.
func c05Sequential(t *testing.T, kind string, seg vk.SegFunc, lens []int, bufSize int) (k, d string) {
	p, leftover := vk.InBubble(t, func() {
		n := vk.NewNet()
		w, rd, _, err := c05Pair(n, kind, seg, 0)
		if err != nil {
			k, d = "handshake", err.Error()
			return
		}
		var msgs [][]byte
		for i, L := range lens {
			msgs = append(msgs, c05Msg(1, uint32(i), L))
		}
		go func() {
			for i, m := range msgs {
				nn, err := w.Write(m)
				if err != nil || nn != len(m) {
					k, d = "write", fmt.Sprintf("Write of message %d (%d bytes) returned (%d, %v)", i, len(m), nn, err)
					return
				}
			}
		}()
		got := 0
		done := make(chan struct{})
		go func() {
			defer close(done)
			buf := make([]byte, bufSize)
			for got < len(msgs) {
				nn, err := rd.Read(buf)
				if err != nil {
					k, d = "read-error", fmt.Sprintf("Read of message %d (%d bytes, buffer %d) failed: %v", got, len(msgs[got]), bufSize, err)
					return
				}
				if !bytes.Equal(buf[:nn], msgs[got]) {
					k, d = "wrong-message", fmt.Sprintf("Read %d returned %d bytes that are not message %d (%d bytes) whole and unaltered", got, nn, got, len(msgs[got]))
					return
				}
				got++
			}
		}()
		vk.Wait()
		select {
		case <-done:
		default:
			if k == "" {
				k, d = "reader-parked", fmt.Sprintf("all %d messages were written and delivered to the transport but the reader got only %d and is parked", len(msgs), got)
			}
		}
		w.Close()
		rd.Close()
		vk.Wait()
	})
	if p != nil && !leftover && k == "" {
		k, d = "panic", fmt.Sprint(p)
	}
	return
}

// c05AfterFailedWrite: a Write whose transport write reports an error (the bytes did leave) is
// followed by further Writes on the same connection; the reader must still get exactly the written
// messages, each whole, in order, and nothing else.
func c05AfterFailedWrite(t *testing.T, kind string, lens []int, failAt int) (k, d string) {
	defer runtime.GOMAXPROCS(runtime.GOMAXPROCS(1)) // buffer pools are per-P: reuse by the next Write is then certain
	p, leftover := vk.InBubble(t, func() {
		n := vk.NewNet()
		w, rd, pipe, err := c05Pair(n, kind, vk.SegAll(), 0)
		if err != nil {
			k, d = "handshake", err.Error()
			return
		}
		var msgs [][]byte
		for i, L := range lens {
			msgs = append(msgs, c05Msg(3, uint32(i), L))
		}
		for i, m := range msgs {
			if i == failAt {
				pipe.FailNextWrite(0)
			}
			_, err := w.Write(m)
			if i != failAt && err != nil {
				k, d = "write", fmt.Sprintf("Write of message %d (after the failed write of message %d) returned %v", i, failAt, err)
				return
			}
		}
		got := 0
		done := make(chan struct{})
		go func() {
			defer close(done)
			buf := make([]byte, 20000)
			for got < len(msgs) {
				nn, err := rd.Read(buf)
				if err != nil {
					k, d = "read-error", fmt.Sprintf("Read of message %d failed: %v (message %d was the one whose transport write reported an error after its bytes had left)", got, err, failAt)
					return
				}
				if !bytes.Equal(buf[:nn], msgs[got]) {
					k, d = "wrong-message", fmt.Sprintf("Read %d returned %d bytes that are not message %d (%d bytes) whole and unaltered; message %d was the one whose transport write reported an error after its bytes had left", got, nn, got, len(msgs[got]), failAt)
					return
				}
				got++
			}
		}()
		vk.Wait()
		select {
		case <-done:
		default:
			if k == "" {
				k, d = "reader-parked", fmt.Sprintf("the reader got only %d of %d messages and is parked (message %d's transport write had reported an error)", got, len(msgs), failAt)
			}
		}
		w.Close()
		rd.Close()
		vk.Wait()
	})
	if p != nil && !leftover && k == "" {
		k, d = "panic", fmt.Sprint(p)
	}
	return
}

// c05Oversize: a record larger than the reader's buffer must be reported as an error.
func c05Oversize(t *testing.T, kind string, msgLen, bufSize int) (k, d string) {
	p, leftover := vk.InBubble(t, func() {
		n := vk.NewNet()
		w, rd, _, err := c05Pair(n, kind, vk.SegAll(), 0)
		if err != nil {
			k, d = "handshake", err.Error()
			return
		}
		m := c05Msg(2, 0, msgLen)
		go w.Write(m)
		var nn int
		var rerr error
		done := make(chan struct{})
		go func() {
			defer close(done)
			nn, rerr = rd.Read(make([]byte, bufSize))
		}()
		vk.Wait()
		select {
		case <-done:
			if rerr == nil {
				k, d = "truncated", fmt.Sprintf("%s: a %d-byte message read with a %d-byte buffer returned (%d, nil): delivered truncated instead of an error", kind, msgLen, bufSize, nn)
			}
		default:
			k, d = "reader-parked", "oversize read parked"
		}
		w.Close()
		rd.Close()
		vk.Wait()
	})
	if p != nil && !leftover && k == "" {
		k, d = "panic", fmt.Sprint(p)
	}
	return
}

// c05Concurrent: several goroutines write through one conn; messages must not interleave.
func c05Concurrent(t *testing.T, r *vk.Reporter, kind string, writers, per int, seg vk.SegFunc, procs int) (k, d string) {
	defer runtime.GOMAXPROCS(runtime.GOMAXPROCS(procs))
	p, leftover := vk.InBubble(t, func() {
		n := vk.NewNet()
		w, rd, _, err := c05Pair(n, kind, seg, 2)
		if err != nil {
			k, d = "handshake", err.Error()
			return
		}
		for wi := 0; wi < writers; wi++ {
			wi := wi
			go func() {
				lr := rand.New(rand.NewPCG(uint64(wi), 5))
				for c := 0; c < per; c++ {
					sz := 20 + lr.IntN(300)
					if lr.IntN(10) == 0 {
						sz = 20 + lr.IntN(16000)
					}
					if _, err := w.Write(vk.Datagram(uint32(wi), uint32(c), sz)); err != nil {
						return
					}
					if lr.IntN(3) == 0 {
						runtime.Gosched()
					}
				}
			}()
		}
		next := make([]uint32, writers)
		total := 0
		done := make(chan struct{})
		var vmu sync.Mutex
		go func() {
			defer close(done)
			buf := make([]byte, 20480)
			for total < writers*per {
				nn, err := rd.Read(buf)
				if err != nil {
					vmu.Lock()
					k, d = "read-error", fmt.Sprintf("Read failed after %d messages: %v", total, err)
					vmu.Unlock()
					return
				}
				wi, c, ok := vk.ParseDatagram(buf[:nn])
				if !ok || int(wi) >= writers {
					vmu.Lock()
					k, d = "interleaved", fmt.Sprintf("message %d (%d bytes) is not a message any writer sent whole: concurrent writes interleaved or framing lost", total, nn)
					vmu.Unlock()
					return
				}
				if c != next[wi] {
					vmu.Lock()
					k, d = "order", fmt.Sprintf("writer %d: received counter %d, expected %d (lost, duplicated or reordered)", wi, c, next[wi])
					vmu.Unlock()
					return
				}
				next[wi]++
				total++
			}
		}()
		vk.Wait()
		select {
		case <-done:
		default:
			vmu.Lock()
			if k == "" {
				k, d = "reader-parked", fmt.Sprintf("writers finished but the reader received only %d of %d messages", total, writers*per)
			}
			vmu.Unlock()
		}
		r.Count("messages_checked", int64(total))
		r.Distinct("interleavings", n.ArrivalSignature())
		w.Close()
		rd.Close()
		vk.Wait()
	})
	if p != nil && !leftover && k == "" {
		k, d = "panic", fmt.Sprint(p)
	}
	return
}

func TestVerif_C05(t *testing.T) {
	r := vk.Open()
	defer r.Close()
	kinds := []string{"tls", "ws"}
	for _, kind := range kinds {
		// (1) every single cut and every pair of cuts of a short exchange
		id := "cuts/" + kind
		if r.Mine(id) {
			r.Case(id, nil)
			lens := []int{0, 7, 20}
			if kind == "ws" {
				lens = []int{1, 7, 20}
			}
			wireLen := 0
			for _, L := range lens {
				wireLen += L + 5
				if kind == "ws" {
					wireLen += 3 // mask/len overhead is larger; cover generously
				}
			}
			wireLen += 8
			var bad string
			var badk string
			count := 0
			for c1 := 1; c1 < wireLen && bad == ""; c1++ {
				for c2 := c1; c2 < wireLen && bad == ""; c2++ {
					cuts := []int64{int64(c1), int64(c2)}
					k, d := c05Sequential(t, kind, vk.SegCuts(cuts...), lens, 20480)
					count++
					if k != "" {
						badk, bad = k, fmt.Sprintf("%s with cuts at %v of the byte stream (messages %v): %s", kind, cuts, lens, d)
					}
				}
			}
			r.Count("evaluations", int64(count))
			r.Count("distinct_enumerated", int64(count))
			r.Count("cut_placements_"+kind, int64(count))
			if bad != "" {
				r.Violation(id, "C05:"+badk, bad, nil)
			} else {
				r.Pass(id)
			}
			r.Sample(map[string]any{"kind": kind, "messages": lens, "cuts": "every single position and every pair"})
		}
		// (2) message lengths and segmentation policies
		for si, segName := range []string{"one", "random", "small", "all"} {
			id := fmt.Sprintf("lengths/%s/%s", kind, segName)
			if !r.Mine(id) {
				continue
			}
			r.Case(id, nil)
			rng := r.Rand("c05", id)
			var lens []int
			lo := 0
			if kind == "ws" {
				lo = 1 // a zero-length binary message is indistinguishable from (0, nil) "not binary"
			}
			for L := lo; L <= 64; L++ {
				lens = append(lens, L)
			}
			lens = append(lens, 16384, 16385, 16639, 16640, 4095, 4096, 4097)
			for i := 0; i < r.Pick(20, 1000); i++ {
				lens = append(lens, lo+rng.IntN(16640))
			}
			if segName == "one" {
				lens = lens[:70]
			}
			var seg vk.SegFunc
			switch segName {
			case "one":
				seg = vk.SegOne()
			case "random":
				seg = vk.SegRandom(rand.New(rand.NewPCG(uint64(si), 1)))
			case "small":
				seg = vk.SegSmall(rand.New(rand.NewPCG(uint64(si), 2)))
			default:
				seg = vk.SegAll()
			}
			k, d := c05Sequential(t, kind, seg, lens, 20480)
			r.Count("evaluations", int64(len(lens)))
			r.Count("distinct_enumerated", int64(len(lens)))
			if k != "" {
				r.Violation(id, "C05:"+k, fmt.Sprintf("%s/%s: %s", kind, segName, d), nil)
			} else {
				r.Pass(id)
			}
		}
		// (3) records larger than the reader's buffer
		id = "oversize/" + kind
		if r.Mine(id) {
			r.Case(id, nil)
			var bad, badk string
			n := 0
			for _, pr := range [][2]int{{65, 64}, {71, 64}, {128, 64}, {640, 64}, {16640, 16639}, {16640, 20}, {1000, 999}, {21, 20}, {6, 5}} {
				k, d := c05Oversize(t, kind, pr[0], pr[1])
				n++
				if k != "" && bad == "" {
					badk, bad = k, d
				}
			}
			r.Count("evaluations", int64(n))
			r.Count("distinct_enumerated", int64(n))
			if bad != "" {
				r.Violation(id, "C05:"+badk, bad, nil)
			} else {
				r.Pass(id)
			}
		}
		// (3b) writes after a write whose transport reported an error (TLS record layer only: gorilla
		// makes a write error sticky, so nothing follows there)
		id = "after-failed-write/" + kind
		if kind == "tls" && r.Mine(id) {
			r.Case(id, nil)
			var bad, badk string
			n := 0
			for fa := 0; fa < 4; fa++ {
				for _, lens := range [][]int{{10, 20, 30, 40, 50}, {1000, 1, 16000, 7, 300}, {1, 1, 1, 1, 1}, {16000, 16000, 16000, 16000, 16000}} {
					k, d := c05AfterFailedWrite(t, kind, lens, fa)
					n++
					if k != "" && bad == "" {
						badk, bad = k, d
					}
				}
			}
			r.Count("evaluations", int64(n))
			r.Count("writes_after_failed_write", int64(n))
			r.Count("distinct_enumerated", int64(n))
			if bad != "" {
				r.Violation(id, "C05:"+badk, bad, nil)
			} else {
				r.Pass(id)
			}
		}
		// (4) concurrent writers
		for i, wn := range []int{2, 4, 16} {
			id := fmt.Sprintf("concurrent/%s/writers=%d", kind, wn)
			if !r.Mine(id) {
				continue
			}
			r.Case(id, nil)
			per := r.Pick(200, 4000)
			segs := []vk.SegFunc{vk.SegAll(), vk.SegRandom(rand.New(rand.NewPCG(9, 9))), vk.SegSmall(rand.New(rand.NewPCG(8, 8)))}
			k, d := c05Concurrent(t, r, kind, wn, per, segs[i%3], []int{16, 4, 2}[i])
			r.Count("evaluations", int64(wn*per))
			r.Count("distinct_enumerated", 1)
			if k != "" {
				r.Violation(id, "C05:"+k, fmt.Sprintf("%s, %d writers: %s", kind, wn, d), nil)
			} else {
				r.Pass(id)
			}
		}
	}
	r.Distinct("cases", "cuts")
	r.Distinct("cases", "lengths")
}
