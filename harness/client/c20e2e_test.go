package client

// C20 end-to-end (thorough tier): the freshly built ck-client binary runs under strace; a local
// TCP connection triggers its outgoing dial; the keep-alive parameters that reach the kernel for
// that socket must equal the configured KeepAlive, and an idle local connection must be dropped
// after StreamTimeout.

import (
	"bufio"
	"crypto"
	"crypto/rand"
	"encoding/base64"
	"encoding/json"
	"fmt"
	"io"
	"net"
	"os"
	"os/exec"
	"path/filepath"
	"regexp"
	"strings"
	"testing"
	"time"

	"github.com/cbeuw/Cloak/internal/ecdh"
	vk "github.com/cbeuw/Cloak/internal/verifkit"
)

func freePort() int {
	l, err := net.Listen("tcp", "127.0.0.1:0")
	if err != nil {
		panic(err)
	}
	defer l.Close()
	return l.Addr().(*net.TCPAddr).Port
}

func c20RunClient(dir, bin string, keepAlive, streamTimeout int, syntax string) (trace string, idleDropped time.Duration, remotePort int, err error) {
	srvBin := os.Getenv("VERIF_CKSERVER")
	pv, pubKey, err := ecdh.GenerateKey(rand.Reader)
	if err != nil {
		return "", 0, 0, err
	}
	// a proxy server behind ck-server that swallows everything
	proxy, err := net.Listen("tcp", "127.0.0.1:0")
	if err != nil {
		return "", 0, 0, err
	}
	defer proxy.Close()
	go func() {
		for {
			c, err := proxy.Accept()
			if err != nil {
				return
			}
			go io.Copy(io.Discard, c)
		}
	}()
	remotePort = freePort()
	uid := make([]byte, 16)
	uid[3] = 7
	scfg := map[string]any{"ProxyBook": map[string][]string{"shadowsocks": {"tcp", proxy.Addr().String()}}, "BindAddr": []string{fmt.Sprintf("127.0.0.1:%d", remotePort)},
		"BypassUID": [][]byte{uid}, "RedirAddr": "127.0.0.1:9", "PrivateKey": ecdh.Marshal(pv.(crypto.PrivateKey))[:32]}
	_ = scfg
	pvb := pv.(*[32]byte)
	scfg["PrivateKey"] = pvb[:]
	sb, _ := json.Marshal(scfg)
	spath := filepath.Join(dir, fmt.Sprintf("server-%d-%d-%s.json", keepAlive, streamTimeout, syntax))
	os.WriteFile(spath, sb, 0600)
	srv := exec.Command(srvBin, "-c", spath, "-verbosity", "error")
	if err := srv.Start(); err != nil {
		return "", 0, 0, err
	}
	defer func() { srv.Process.Kill(); srv.Wait() }()
	for i := 0; i < 200; i++ {
		c, err := net.Dial("tcp", fmt.Sprintf("127.0.0.1:%d", remotePort))
		if err == nil {
			c.Close()
			break
		}
		time.Sleep(50 * time.Millisecond)
	}
	pub := ecdh.Marshal(pubKey)
	lport := freePort()
	cfg := map[string]any{"Transport": "direct", "ProxyMethod": "shadowsocks", "EncryptionMethod": "plain", "UID": uid, "PublicKey": pub, "ServerName": "www.bing.com",
		"NumConn": 1, "BrowserSig": "firefox", "StreamTimeout": streamTimeout, "KeepAlive": keepAlive}
	var confArg string
	if syntax == "json" {
		b, _ := json.Marshal(cfg)
		confArg = filepath.Join(dir, fmt.Sprintf("cfg-%d-%d.json", keepAlive, streamTimeout))
		os.WriteFile(confArg, b, 0600)
	} else {
		confArg = fmt.Sprintf("Transport=direct;ProxyMethod=shadowsocks;EncryptionMethod=plain;UID=%s;PublicKey=%s;ServerName=www.bing.com;NumConn=1;BrowserSig=firefox;StreamTimeout=%d;KeepAlive=%d",
			strings.ReplaceAll(base64.StdEncoding.EncodeToString(uid), "=", `\=`), strings.ReplaceAll(base64.StdEncoding.EncodeToString(pub), "=", `\=`), streamTimeout, keepAlive)
	}
	tracePath := filepath.Join(dir, fmt.Sprintf("trace-%d-%d-%s.txt", keepAlive, streamTimeout, syntax))
	cmd := exec.Command("strace", "-f", "-o", tracePath, "-e", "trace=setsockopt,connect", bin,
		"-c", confArg, "-s", "127.0.0.1", "-p", fmt.Sprint(remotePort), "-i", "127.0.0.1", "-l", fmt.Sprint(lport), "-verbosity", "error")
	if err := cmd.Start(); err != nil {
		return "", 0, 0, err
	}
	defer func() { cmd.Process.Kill(); cmd.Wait() }()
	// wait for the local listener
	var idle net.Conn
	for i := 0; i < 200; i++ {
		idle, err = net.Dial("tcp", fmt.Sprintf("127.0.0.1:%d", lport))
		if err == nil {
			break
		}
		time.Sleep(50 * time.Millisecond)
	}
	if err != nil {
		return "", 0, 0, fmt.Errorf("ck-client did not start listening: %v", err)
	}
	// (0) a first active connection makes ck-client establish its session (the outgoing dial)
	warm, err := net.Dial("tcp", fmt.Sprintf("127.0.0.1:%d", lport))
	if err == nil {
		warm.Write([]byte("warm-up"))
		time.Sleep(1500 * time.Millisecond)
		idle.Close()
		idle, err = net.Dial("tcp", fmt.Sprintf("127.0.0.1:%d", lport))
		if err != nil {
			return "", 0, remotePort, err
		}
		defer warm.Close()
	}
	// (1) an idle local connection is dropped after StreamTimeout
	t0 := time.Now()
	idle.SetReadDeadline(time.Now().Add(time.Duration(streamTimeout)*time.Second + 60*time.Second))
	_, rerr := bufio.NewReader(idle).ReadByte()
	idleDropped = time.Since(t0)
	if ne, ok := rerr.(net.Error); ok && ne.Timeout() {
		idleDropped = -1
	}
	idle.Close()
	// (2) an active local connection triggers the outgoing dial
	act, err := net.Dial("tcp", fmt.Sprintf("127.0.0.1:%d", lport))
	if err != nil {
		return "", idleDropped, remotePort, err
	}
	act.Write([]byte("hello"))
	time.Sleep(1500 * time.Millisecond)
	act.Close()
	cmd.Process.Kill()
	cmd.Wait()
	b, _ := os.ReadFile(tracePath)
	return string(b), idleDropped, remotePort, nil
}

func TestVerif_C20E2E(t *testing.T) {
	r := vk.Open()
	defer r.Close()
	bin := os.Getenv("VERIF_CKCLIENT")
	if !r.Thorough() || bin == "" || os.Getenv("VERIF_CKSERVER") == "" {
		id := "e2e-skipped"
		if r.Mine(id) {
			r.Case(id, nil)
			r.Count("evaluations", 0)
			r.Pass(id)
		}
		return
	}
	dir, _ := os.MkdirTemp("", "verif-c20e-")
	defer os.RemoveAll(dir)
	cases := []struct{ ka, st int }{{37, 2}, {600, 1}, {0, 2}, {-5, 1}, {1, 3}}
	for ci, c := range cases {
		for _, syntax := range []string{"json", "options"} {
			id := fmt.Sprintf("e2e/keepalive=%d/streamtimeout=%d/%s", c.ka, c.st, syntax)
			if !r.Mine(id) {
				continue
			}
			r.Case(id, nil)
			trace, dropped, rport, err := c20RunClient(dir, bin, c.ka, c.st, syntax)
			r.Count("evaluations", 1)
			r.Distinct("cases", vk.Hash64("e2e", ci, syntax))
			if err != nil {
				r.Inconclusive(id, "could not run ck-client under strace: "+err.Error())
				continue
			}
			// find the fd that connected to the remote port, then its keep-alive options
			fdRe := regexp.MustCompile(fmt.Sprintf(`connect\((\d+), \{sa_family=AF_INET, sin_port=htons\(%d\)`, rport))
			m := fdRe.FindStringSubmatch(trace)
			if m == nil {
				r.Inconclusive(id, "the outgoing connect() to the remote port does not appear in the trace")
				continue
			}
			fd := m[1]
			idle := regexp.MustCompile(`setsockopt\(`+fd+`, SOL_TCP, TCP_KEEPIDLE, \[(\d+)\]`).FindAllStringSubmatch(trace, -1)
			intvl := regexp.MustCompile(`setsockopt\(`+fd+`, SOL_TCP, TCP_KEEPINTVL, \[(\d+)\]`).FindAllStringSubmatch(trace, -1)
			var bad string
			if c.ka > 0 {
				// documented: "the number of seconds to tell the OS to wait after no activity before sending
				// TCP KeepAlive probes" = the idle time; the probe interval is not documented
				if len(idle) == 0 || idle[len(idle)-1][1] != fmt.Sprint(c.ka) {
					bad = fmt.Sprintf("KeepAlive=%d (%s syntax): the kernel was told TCP_KEEPIDLE %v (TCP_KEEPINTVL %v) for the outgoing socket, documented is a wait of %d seconds", c.ka, syntax, idle, intvl, c.ka)
				}
			} else if len(idle) != 0 {
				bad = fmt.Sprintf("KeepAlive=%d (%s syntax) is documented to disable keep-alive, but the kernel was told TCP_KEEPIDLE %v", c.ka, syntax, idle)
			}
			lo, hi := time.Duration(c.st)*time.Second*7/10, time.Duration(c.st)*time.Second+20*time.Second
			if bad == "" && (dropped < 0 || dropped < lo || dropped > hi) {
				bad = fmt.Sprintf("StreamTimeout=%d (%s syntax): an idle local connection was dropped after %v (negative = not within a minute), expected about %d s", c.st, syntax, dropped, c.st)
			}
			r.Sample(map[string]any{"keepalive": c.ka, "stream_timeout": c.st, "syntax": syntax, "TCP_KEEPIDLE_seen": idle, "idle_connection_dropped_after": dropped.String()})
			if bad != "" {
				r.Violation(id, "C20:e2e", bad, nil)
			} else {
				r.Pass(id)
			}
		}
	}
}
