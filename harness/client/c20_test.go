package client

// C20 - client configuration is honoured exactly as documented, in both input syntaxes.
// Table-driven differential oracle: the expected processed configuration is computed by an
// independent function written from README.md; every generated configuration is given once as a
// JSON file and once as a semicolon-separated option string.

import (
	"encoding/base64"
	"encoding/json"
	"fmt"
	mrand "math/rand/v2"
	"net"
	"os"
	"path/filepath"
	"reflect"
	"strings"
	"testing"
	"time"

	"github.com/cbeuw/Cloak/internal/common"
	mux "github.com/cbeuw/Cloak/internal/multiplex"
	vk "github.com/cbeuw/Cloak/internal/verifkit"
)

// c20Cfg is one generated configuration: nil pointers mean "key absent".
type c20Cfg struct {
	UID, PublicKey                                     []byte
	ServerName, ProxyMethod, EncryptionMethod          *string
	NumConn, StreamTimeout, KeepAlive                  *int
	UDP                                                *bool
	BrowserSig, Transport, CDNOriginHost, CDNWsUrlPath *string
	RemoteHost, RemotePort, LocalHost, LocalPort       *string
	AlternativeNames                                   *[]string
	EscapeEquals                                       bool // ssv: write '=' inside values as '\='
}

func sp(s string) *string { return &s }
func ip(i int) *int       { return &i }

func (c *c20Cfg) jsonText() []byte {
	m := map[string]any{}
	put := func(k string, v any) { m[k] = v }
	if c.UID != nil {
		put("UID", c.UID)
	}
	if c.PublicKey != nil {
		put("PublicKey", c.PublicKey)
	}
	for k, v := range map[string]*string{"ServerName": c.ServerName, "ProxyMethod": c.ProxyMethod, "EncryptionMethod": c.EncryptionMethod, "BrowserSig": c.BrowserSig,
		"Transport": c.Transport, "CDNOriginHost": c.CDNOriginHost, "CDNWsUrlPath": c.CDNWsUrlPath, "RemoteHost": c.RemoteHost, "RemotePort": c.RemotePort, "LocalHost": c.LocalHost, "LocalPort": c.LocalPort} {
		if v != nil {
			put(k, *v)
		}
	}
	for k, v := range map[string]*int{"NumConn": c.NumConn, "StreamTimeout": c.StreamTimeout, "KeepAlive": c.KeepAlive} {
		if v != nil {
			put(k, *v)
		}
	}
	if c.UDP != nil {
		put("UDP", *c.UDP)
	}
	if c.AlternativeNames != nil {
		put("AlternativeNames", *c.AlternativeNames)
	}
	b, _ := json.Marshal(m)
	return b
}

func (c *c20Cfg) ssvText(rng *mrand.Rand) string {
	var parts []string
	esc := func(s string) string {
		if c.EscapeEquals {
			return strings.ReplaceAll(s, "=", `\=`)
		}
		return s
	}
	add := func(k, v string) { parts = append(parts, k+"="+esc(v)) }
	if c.UID != nil {
		add("UID", base64.StdEncoding.EncodeToString(c.UID))
	}
	if c.PublicKey != nil {
		add("PublicKey", base64.StdEncoding.EncodeToString(c.PublicKey))
	}
	for _, kv := range []struct {
		k string
		v *string
	}{{"ServerName", c.ServerName}, {"ProxyMethod", c.ProxyMethod}, {"EncryptionMethod", c.EncryptionMethod}, {"BrowserSig", c.BrowserSig}, {"Transport", c.Transport},
		{"CDNOriginHost", c.CDNOriginHost}, {"CDNWsUrlPath", c.CDNWsUrlPath}, {"RemoteHost", c.RemoteHost}, {"RemotePort", c.RemotePort}, {"LocalHost", c.LocalHost}, {"LocalPort", c.LocalPort}} {
		if kv.v != nil {
			add(kv.k, *kv.v)
		}
	}
	for _, kv := range []struct {
		k string
		v *int
	}{{"NumConn", c.NumConn}, {"StreamTimeout", c.StreamTimeout}, {"KeepAlive", c.KeepAlive}} {
		if kv.v != nil {
			add(kv.k, fmt.Sprint(*kv.v))
		}
	}
	if c.UDP != nil {
		add("UDP", fmt.Sprint(*c.UDP))
	}
	if c.AlternativeNames != nil {
		add("AlternativeNames", strings.Join(*c.AlternativeNames, ","))
	}
	rng.Shuffle(len(parts), func(i, j int) { parts[i], parts[j] = parts[j], parts[i] })
	s := strings.Join(parts, ";")
	if rng.IntN(2) == 0 || len(parts) == 1 {
		s += ";" // plugin hosts terminate the list; a single option also needs it to be recognised as options
	}
	return s
}

// c20Expect is the documented meaning (README.md, section Client) of a configuration.
type c20Expect struct {
	Err          bool
	Singleplex   bool
	NumConn      int
	KeepAliveOff bool
	KeepAlive    time.Duration
	Timeout      time.Duration
	Enc          byte
	Unordered    bool
	Mode         string // direct / cdn
	Browser      string
	WsUrl        string
	RemoteAddr   string
	LocalAddr    string
	Domains      []string
	UID          []byte
	ProxyMethod  string
}

func c20Doc(c *c20Cfg) c20Expect {
	var e c20Expect
	str := func(p *string) string {
		if p == nil {
			return ""
		}
		return *p
	}
	// required
	if str(c.ServerName) == "" || str(c.ProxyMethod) == "" || len(c.UID) == 0 || len(c.PublicKey) != 32 ||
		str(c.RemoteHost) == "" || str(c.RemotePort) == "" || str(c.LocalHost) == "" || str(c.LocalPort) == "" {
		e.Err = true
		return e
	}
	switch strings.ToLower(str(c.EncryptionMethod)) {
	case "plain":
		e.Enc = mux.EncryptionMethodPlain
	case "aes-gcm", "aes-256-gcm":
		e.Enc = mux.EncryptionMethodAES256GCM
	case "aes-128-gcm":
		e.Enc = mux.EncryptionMethodAES128GCM
	case "chacha20-poly1305":
		e.Enc = mux.EncryptionMethodChaha20Poly1305
	default:
		e.Err = true
		return e
	}
	n := 0
	if c.NumConn != nil {
		n = *c.NumConn
	}
	if n <= 0 { // "Setting it to 0 will disable connection multiplexing": one connection per stream
		e.Singleplex, e.NumConn = true, 1
	} else {
		e.NumConn = n
	}
	ka := 0
	if c.KeepAlive != nil {
		ka = *c.KeepAlive
	}
	if ka <= 0 { // "Zero or negative value disables it. Default is 0 (disabled)"
		e.KeepAliveOff = true
	} else {
		e.KeepAlive = time.Duration(ka) * time.Second
	}
	st := 0
	if c.StreamTimeout != nil {
		st = *c.StreamTimeout
	}
	if st == 0 {
		e.Timeout = 300 * time.Second // the example configuration's value; pinned default
	} else {
		e.Timeout = time.Duration(st) * time.Second
	}
	e.Unordered = c.UDP != nil && *c.UDP
	e.Mode = "direct"
	if strings.EqualFold(str(c.Transport), "cdn") {
		e.Mode = "cdn"
		host := str(c.CDNOriginHost)
		if host == "" {
			host = str(c.RemoteHost)
		}
		path := str(c.CDNWsUrlPath)
		if path == "" {
			path = "/"
		}
		e.WsUrl = "ws://" + net.JoinHostPort(host, str(c.RemotePort)) + path
	} else {
		switch strings.ToLower(str(c.BrowserSig)) {
		case "firefox":
			e.Browser = "firefox"
		case "safari":
			e.Browser = "safari"
		default:
			e.Browser = "chrome"
		}
	}
	e.RemoteAddr = net.JoinHostPort(str(c.RemoteHost), str(c.RemotePort))
	e.LocalAddr = net.JoinHostPort(str(c.LocalHost), str(c.LocalPort))
	if c.AlternativeNames != nil {
		for _, d := range *c.AlternativeNames {
			if d != "" {
				e.Domains = append(e.Domains, d)
			}
		}
	}
	e.Domains = append(e.Domains, str(c.ServerName))
	e.UID = c.UID
	e.ProxyMethod = str(c.ProxyMethod)
	return e
}

// transportInfo reads the unexported transport settings by field name (skipped when absent).
func transportInfo(t TransportConfig) (mode, wsUrl, browserName string, ok bool) {
	v := reflect.ValueOf(t)
	m, w, b := v.FieldByName("mode"), v.FieldByName("wsUrl"), v.FieldByName("browser")
	if !m.IsValid() || !w.IsValid() || !b.IsValid() {
		return "", "", "", false
	}
	names := map[int64]string{int64(chrome): "chrome", int64(firefox): "firefox", int64(safari): "safari"}
	return m.String(), w.String(), names[b.Int()], true
}

func c20Compare(c *c20Cfg, raw *RawConfig, how string) (kind, detail string) {
	want := c20Doc(c)
	var local LocalConnConfig
	var remote RemoteConnConfig
	var auth AuthInfo
	var err error
	var p any
	func() {
		defer func() { p = recover() }()
		rc := *raw
		local, remote, auth, err = rc.ProcessRawConfig(common.RealWorldState)
	}()
	if p != nil {
		return "panic", fmt.Sprintf("%s: ProcessRawConfig panicked: %v", how, p)
	}
	if want.Err {
		if err == nil {
			return "invalid-accepted", fmt.Sprintf("%s: an invalid or incomplete configuration was accepted", how)
		}
		return "", ""
	}
	if err != nil {
		return "valid-rejected", fmt.Sprintf("%s: a valid configuration was rejected: %v", how, err)
	}
	bad := func(what string, got, exp any) (string, string) {
		return "option-" + what, fmt.Sprintf("%s: %s is %v, the documentation says %v", how, what, got, exp)
	}
	if remote.Singleplex != want.Singleplex || remote.NumConn != want.NumConn {
		return bad("NumConn", fmt.Sprint(remote.NumConn, " singleplex=", remote.Singleplex), fmt.Sprint(want.NumConn, " singleplex=", want.Singleplex))
	}
	if want.KeepAliveOff {
		if remote.KeepAlive >= 0 {
			return bad("KeepAlive", remote.KeepAlive, "disabled (a negative dialer value)")
		}
	} else if remote.KeepAlive != want.KeepAlive {
		return bad("KeepAlive", remote.KeepAlive, want.KeepAlive)
	}
	if local.Timeout != want.Timeout {
		return bad("StreamTimeout", local.Timeout, want.Timeout)
	}
	if auth.EncryptionMethod != want.Enc {
		return bad("EncryptionMethod", auth.EncryptionMethod, want.Enc)
	}
	if auth.Unordered != want.Unordered {
		return bad("UDP", auth.Unordered, want.Unordered)
	}
	if remote.RemoteAddr != want.RemoteAddr || local.LocalAddr != want.LocalAddr {
		return bad("addresses", remote.RemoteAddr+" / "+local.LocalAddr, want.RemoteAddr+" / "+want.LocalAddr)
	}
	if fmt.Sprint(local.MockDomainList) != fmt.Sprint(want.Domains) || auth.MockDomain != want.Domains[len(want.Domains)-1] {
		return bad("ServerName/AlternativeNames", fmt.Sprintf("%q", local.MockDomainList), fmt.Sprintf("%q", want.Domains))
	}
	if string(auth.UID) != string(want.UID) || auth.ProxyMethod != want.ProxyMethod {
		return bad("UID/ProxyMethod", auth.ProxyMethod, want.ProxyMethod)
	}
	if mode, ws, br, ok := transportInfo(remote.Transport); ok {
		if mode != want.Mode {
			return bad("Transport", mode, want.Mode)
		}
		if want.Mode == "cdn" && ws != want.WsUrl {
			return bad("CDNOriginHost/CDNWsUrlPath", ws, want.WsUrl)
		}
		if want.Mode == "direct" && br != want.Browser {
			return bad("BrowserSig", br, want.Browser)
		}
	}
	tr := remote.Transport.CreateTransport()
	switch tr.(type) {
	case *DirectTLS:
		if want.Mode != "direct" {
			return bad("Transport", "DirectTLS", want.Mode)
		}
	case *WSOverTLS:
		if want.Mode != "cdn" {
			return bad("Transport", "WSOverTLS", want.Mode)
		}
	default:
		return bad("Transport", fmt.Sprintf("%T", tr), want.Mode)
	}
	return "", ""
}

func c20Gen(rng *mrand.Rand, i int) *c20Cfg {
	c := &c20Cfg{}
	c.UID = make([]byte, 16)
	c.PublicKey = make([]byte, 32)
	for k := range c.UID {
		c.UID[k] = byte(rng.Uint32())
	}
	for k := range c.PublicKey {
		c.PublicKey[k] = byte(rng.Uint32())
	}
	c.ServerName = sp([]string{"www.bing.com", "random", "a.b", "example.org"}[rng.IntN(4)])
	c.ProxyMethod = sp([]string{"shadowsocks", "openvpn", "tor", "x"}[rng.IntN(4)])
	c.EncryptionMethod = sp([]string{"plain", "aes-gcm", "aes-256-gcm", "aes-128-gcm", "chacha20-poly1305", "AES-GCM", "Plain", "ChaCha20-Poly1305", "AES-128-gcm"}[rng.IntN(9)])
	c.RemoteHost, c.RemotePort = sp([]string{"1.2.3.4", "example.com", "::1"}[rng.IntN(3)]), sp([]string{"443", "8443"}[rng.IntN(2)])
	c.LocalHost, c.LocalPort = sp("127.0.0.1"), sp([]string{"1984", "1080"}[rng.IntN(2)])
	c.EscapeEquals = rng.IntN(2) == 0
	// optional keys: presence decided by the bits of i (all combinations over 512 consecutive cases)
	if i&1 != 0 {
		c.NumConn = ip([]int{0, 1, 4, -1, 16, -7}[rng.IntN(6)])
	}
	if i&2 != 0 {
		c.KeepAlive = ip([]int{0, 1, 15, 37, -1, 600, -30}[rng.IntN(7)])
	}
	if i&4 != 0 {
		c.StreamTimeout = ip([]int{0, 1, 300, 45, 86400}[rng.IntN(5)])
	}
	if i&8 != 0 {
		b := rng.IntN(2) == 0
		c.UDP = &b
	}
	if i&16 != 0 {
		c.BrowserSig = sp([]string{"chrome", "firefox", "safari", "Firefox", "SAFARI", "Chrome", "edge", ""}[rng.IntN(8)])
	}
	if i&32 != 0 {
		c.Transport = sp([]string{"direct", "CDN", "cdn", "Direct", "Cdn", ""}[rng.IntN(6)])
	}
	if i&64 != 0 {
		c.CDNOriginHost = sp([]string{"origin.example.com", "10.1.1.1", ""}[rng.IntN(3)])
	}
	if i&128 != 0 {
		c.CDNWsUrlPath = sp([]string{"/ws", "/a/b/c", "/", "/x?y=1"}[rng.IntN(4)])
	}
	if i&256 != 0 {
		alts := [][]string{{"cloudflare.com", "github.com"}, {"only.com"}, {"a.com", ""}, {"", "b.com"}, {""}, {"x.com", "", "y.com"}, {}}
		a := alts[rng.IntN(len(alts))]
		if len(a) > 0 || rng.IntN(2) == 0 {
			c.AlternativeNames = &a
		}
	}
	return c
}

func TestVerif_C20(t *testing.T) {
	r := vk.Open()
	defer r.Close()
	dir, err := os.MkdirTemp("", "verif-c20-")
	if err != nil {
		panic(err)
	}
	defer os.RemoveAll(dir)
	n := r.Pick(3072, 200000)
	const blk = 256
	for b := 0; b*blk < n; b++ {
		id := fmt.Sprintf("configs-%d", b)
		if !r.Mine(id) {
			continue
		}
		r.Case(id, nil)
		var vkind, vdet string
		var vcfg string
		for i := b * blk; i < (b+1)*blk && vkind == ""; i++ {
			rng := r.Rand("c20", i)
			c := c20Gen(rng, i)
			// some invalid variants
			switch i % 23 {
			case 5:
				c.ServerName = nil
			case 6:
				c.ProxyMethod = sp("")
			case 7:
				c.UID = nil
			case 8:
				c.PublicKey = c.PublicKey[:31]
			case 9:
				c.EncryptionMethod = sp("rot13")
			case 10:
				c.RemoteHost = nil
			case 11:
				c.LocalPort = sp("")
			case 12:
				c.PublicKey = nil
			case 13:
				c.RemotePort = nil
			case 14:
				c.LocalHost = nil
			case 15:
				c.EncryptionMethod = nil
			}
			jtxt := c.jsonText()
			path := filepath.Join(dir, fmt.Sprintf("c%d.json", i))
			os.WriteFile(path, jtxt, 0600)
			ssv := c.ssvText(rng)
			var rawJ, rawS *RawConfig
			var errJ, errS error
			var p any
			func() {
				defer func() { p = recover() }()
				rawJ, errJ = ParseConfig(path)
				rawS, errS = ParseConfig(ssv)
			}()
			os.Remove(path)
			r.Count("evaluations", 1)
			r.Distinct("cases", vk.Hash64(string(jtxt)))
			if i < 2 {
				r.Sample(map[string]any{"json": string(jtxt), "options": ssv})
			}
			vcfg = fmt.Sprintf("json %s | options %q", jtxt, ssv)
			switch {
			case p != nil:
				vkind, vdet = "panic", fmt.Sprintf("ParseConfig panicked: %v", p)
			case errJ != nil:
				vkind, vdet = "json-rejected", fmt.Sprintf("a well-formed JSON configuration file was rejected: %v", errJ)
			case errS != nil:
				vkind, vdet = "syntaxes-differ", fmt.Sprintf("the option-string form is rejected (%v) while the same configuration as JSON parses", errS)
			case !reflect.DeepEqual(c20Norm(rawJ), c20Norm(rawS)):
				vkind, vdet = "syntaxes-differ", fmt.Sprintf("the same configuration parses differently: from JSON %+v, from options %+v", *rawJ, *rawS)
			}
			if vkind == "" {
				vkind, vdet = c20Compare(c, rawJ, "JSON file")
			}
			if vkind == "" {
				vkind, vdet = c20Compare(c, rawS, "option string")
			}
		}
		if vkind != "" {
			r.Violation(id, "C20:"+vkind, vdet+"; configuration: "+vcfg, nil)
		} else {
			r.Pass(id)
		}
	}
	// malformed inputs must produce an error, never a panic
	id := "malformed"
	if r.Mine(id) {
		r.Case(id, nil)
		rng := r.Rand("c20m")
		bad := []string{";=", "=;", ";;", "a;b=", "NumConn=abc;UID=x", "UID=!!!;PublicKey=???;", "KeepAlive=1e99;x=y", "UDP=maybe;", "AlternativeNames=;", "AlternativeNames=,;", "x=\\;y", "=;=;=", ";", "\\=;\\;", "NumConn=;", "StreamTimeout=-;a=b", "{;=}", "UID=\";", "ServerName=a\"b;", filepath.Join(dir, "nonexistent.json")}
		for k := 0; k < 300; k++ {
			n := rng.IntN(40)
			s := make([]byte, n)
			al := []byte("=;\\,\"{}[]:aN1- \n\t")
			for j := range s {
				s[j] = al[rng.IntN(len(al))]
			}
			bad = append(bad, string(s))
		}
		os.WriteFile(filepath.Join(dir, "garbage.json"), []byte("{\"NumConn\": \"four\"}"), 0600)
		os.WriteFile(filepath.Join(dir, "empty.json"), nil, 0600)
		bad = append(bad, filepath.Join(dir, "garbage.json"), filepath.Join(dir, "empty.json"))
		var vdet string
		for _, s := range bad {
			var p any
			func() {
				defer func() { p = recover() }()
				raw, err := ParseConfig(s)
				if err == nil && raw != nil {
					raw.ProcessRawConfig(common.RealWorldState)
				}
			}()
			r.Count("evaluations", 1)
			r.Count("malformed_inputs", 1)
			if p != nil && vdet == "" {
				vdet = fmt.Sprintf("configuration input %q causes a panic instead of an error: %v", s, p)
			}
		}
		if vdet != "" {
			r.Violation(id, "C20:malformed-panic", vdet, nil)
		} else {
			r.Pass(id)
		}
	}
}

// c20Norm drops empty alternative names (documented as ignored; the option syntax cannot tell an
// empty list from a list with one empty name) and treats nil and empty lists alike.
func c20Norm(raw *RawConfig) RawConfig {
	c := *raw
	var alts []string
	for _, a := range c.AlternativeNames {
		if a != "" {
			alts = append(alts, a)
		}
	}
	c.AlternativeNames = alts
	return c
}
