package verifkit

import (
	"fmt"
	"strings"
	"testing"
	"testing/synctest"
)

// InBubble runs f inside a synctest bubble and returns a recovered panic value, if any. The
// panic synctest raises when goroutines of the code under test are still parked at the end of a
// bubble is reported as leftover=true (it is not a verdict by itself).
func InBubble(t *testing.T, f func()) (panicked any, leftover bool) {
	defer func() {
		if r := recover(); r != nil {
			panicked = r
			s := fmt.Sprint(r)
			leftover = strings.Contains(s, "blocked goroutines remain") || strings.Contains(s, "deadlock: main bubble goroutine")
		}
	}()
	synctest.Test(t, func(t *testing.T) { f() })
	return nil, false
}

// Wait is synctest.Wait.
func Wait() { synctest.Wait() }
