package verifkit

import (
	"fmt"
	"os"
	"sort"
	"strings"
	"sync"
	"testing"
	"testing/synctest"
	"time"
)

// InBubble runs f inside a synctest bubble and returns a recovered panic value, if any. The
// panic synctest raises when goroutines of the code under test are still parked at the end of a
// bubble is reported as leftover=true (it is not a verdict by itself).
//
// A goroutine waiting for a sync.Mutex is not "durably blocked", so a mutex deadlock inside the
// code under test makes synctest.Wait() hang instead of returning. A watchdog goroutine outside
// the bubble therefore looks at goroutine dumps when a bubble has not finished after
// VERIF_STUCK_AFTER real seconds (default 240): if the same set of repository goroutines, all
// waiting for locks and none running, shows in four consecutive dumps, it records a deadlock
// violation for the current case and ends the process; a bubble that shows no such cycle is left
// running (it may just be slow) and is recorded as inconclusive only after a further
// VERIF_STUCK_GIVEUP seconds (default 1800).
func InBubble(t *testing.T, f func()) (panicked any, leftover bool) {
	done := make(chan struct{})
	go bubbleWatchdog(done)
	defer close(done)
	defer func() {
		if r := recover(); r != nil {
			panicked = r
			s := fmt.Sprint(r)
			leftover = strings.Contains(s, "blocked goroutines remain") || strings.Contains(s, "deadlock: main bubble goroutine")
		}
	}()
	synctest.Test(t, func(t *testing.T) { f() })
	return nil, false
}

// Wait is synctest.Wait.
func Wait() { synctest.Wait() }

var (
	curMu       sync.Mutex
	curReporter *Reporter
	curCase     string
)

func setCurrent(r *Reporter, id string) {
	curMu.Lock()
	curReporter, curCase = r, id
	curMu.Unlock()
}

func lockWaitSet() (set string, allLocks bool, n int) {
	var blocked []string
	allLocks = true
	for _, g := range Goroutines() {
		fn := ""
		for i, f := range g.Funcs {
			if i < len(g.Files) && IsRepoSource(g.Files[i]) {
				fn = f
				break
			}
		}
		if fn == "" {
			continue
		}
		switch {
		case IsLockWait(g.Reason):
			blocked = append(blocked, fmt.Sprintf("goroutine %s [%s] in %s", g.ID, g.Reason, fn[strings.LastIndex(fn, "/")+1:]))
		case strings.HasPrefix(g.Reason, "sleep") && sleepsAtTopLevel(g):
			// the repository's own time.Sleep calls are the periodic / retry loops (replay-cache
			// clean-up, usage upload, accept and dial retries); none of them sleeps with a lock held, and
			// inside a bubble they cannot wake up while somebody waits for a mutex anyway
		case g.Reason == "running" || g.Reason == "runnable" || g.Reason == "syscall" || strings.HasPrefix(g.Reason, "sleep"):
			// a goroutine of the code under test that runs, or that sleeps inside a library call (the rate
			// limiter sleeps under Stream.Write's lock) could still release the waiters: no deadlock verdict
			allLocks = false
		}
	}
	sort.Strings(blocked)
	return strings.Join(blocked, "; "), allLocks, len(blocked)
}

// sleepsAtTopLevel: the frame that called time.Sleep is repository source itself (not a dependency
// called from it).
func sleepsAtTopLevel(g GInfo) bool {
	for i, f := range g.Funcs {
		if f == "time.Sleep" {
			return i+1 < len(g.Files) && IsRepoSource(g.Files[i+1])
		}
	}
	return false
}

func bubbleWatchdog(done chan struct{}) {
	after := 240 * time.Second
	if s := os.Getenv("VERIF_STUCK_AFTER"); s != "" {
		if d, err := time.ParseDuration(s + "s"); err == nil {
			after = d
		}
	}
	select {
	case <-done:
		return
	case <-time.After(after):
	}
	// From now on look for a lock cycle every 3 s. A bubble that is merely slow (loaded machine) shows
	// changing wait sets and is left alone until it finishes; only after giveUp without a stable lock
	// cycle is the case called inconclusive (the driver's wall-clock watchdog is the last resort).
	giveUp := 1800 * time.Second
	if s := os.Getenv("VERIF_STUCK_GIVEUP"); s != "" {
		if d, err := time.ParseDuration(s + "s"); err == nil {
			giveUp = d
		}
	}
	prev, stable := "", 0
	verdict, detail := "inconclusive", ""
	for start := time.Now(); time.Since(start) < giveUp; {
		select {
		case <-done:
			return
		default:
		}
		set, allLocks, n := lockWaitSet()
		if set == prev && allLocks && n >= 1 {
			stable++
			if stable >= 3 {
				verdict = "violation"
				detail = fmt.Sprintf("the run stopped making progress: goroutines of the code under test wait for each other's locks (identical in 4 consecutive goroutine dumps 3 s apart, none of them running): %s", set)
				break
			}
		} else {
			stable = 0
		}
		prev = set
		select {
		case <-done:
			return
		case <-time.After(3 * time.Second):
		}
	}
	after += giveUp
	curMu.Lock()
	r, id := curReporter, curCase
	curMu.Unlock()
	if r == nil {
		fmt.Fprintln(os.Stderr, "verifkit: bubble stuck and no reporter; lock waiters:", prev)
		os.Exit(3)
	}
	if verdict == "violation" {
		r.Violation(id, os.Getenv("VERIF_PROP")+":deadlock", detail, nil)
	} else {
		r.Inconclusive(id, "the bubble did not finish within "+after.String()+" and the goroutine dumps show no stable lock cycle; lock waiters: "+prev)
	}
	r.Close()
	os.Exit(0)
}
