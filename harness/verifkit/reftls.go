package verifkit

import (
	"encoding/binary"
	"errors"
	"fmt"
)

// reftls - strict, length-checked parser for the TLS record layer, ClientHello and ServerHello,
// written from RFC 8446 (sections 4.1.2, 4.1.3, 4.2, 5.1); shares no code with Cloak.

type TLSRecord struct {
	Type    byte
	Version uint16
	Payload []byte
	Off     int // offset of the record header in the stream
}

// SplitRecords splits a byte stream into records; rest is the number of trailing bytes that do
// not form a complete record.
func SplitRecords(b []byte) (recs []TLSRecord, rest int) {
	pos := 0
	for pos+5 <= len(b) {
		L := int(binary.BigEndian.Uint16(b[pos+3 : pos+5]))
		if pos+5+L > len(b) {
			break
		}
		recs = append(recs, TLSRecord{b[pos], binary.BigEndian.Uint16(b[pos+1 : pos+3]), b[pos+5 : pos+5+L], pos})
		pos += 5 + L
	}
	return recs, len(b) - pos
}

type TLSExt struct {
	Type uint16
	Data []byte
}

type ClientHelloInfo struct {
	LegacyVersion uint16
	Random        []byte
	SessionID     []byte
	CipherSuites  []uint16
	Compression   []byte
	Extensions    []TLSExt
	SNI           string
	HasSNI        bool
	KeyShares     map[uint16][]byte
	Versions      []uint16
}

type rd struct {
	b   []byte
	pos int
	err error
}

func (r *rd) take(n int) []byte {
	if r.err != nil {
		return nil
	}
	if n < 0 || r.pos+n > len(r.b) {
		r.err = errors.New("reftls: truncated")
		return nil
	}
	v := r.b[r.pos : r.pos+n]
	r.pos += n
	return v
}
func (r *rd) u8() int {
	v := r.take(1)
	if v == nil {
		return 0
	}
	return int(v[0])
}
func (r *rd) u16() int {
	v := r.take(2)
	if v == nil {
		return 0
	}
	return int(binary.BigEndian.Uint16(v))
}
func (r *rd) u24() int {
	v := r.take(3)
	if v == nil {
		return 0
	}
	return int(v[0])<<16 | int(v[1])<<8 | int(v[2])
}
func (r *rd) done() bool { return r.pos == len(r.b) }

func parseExts(b []byte) ([]TLSExt, error) {
	r := &rd{b: b}
	var out []TLSExt
	seen := map[uint16]bool{}
	for !r.done() {
		t := uint16(r.u16())
		l := r.u16()
		d := r.take(l)
		if r.err != nil {
			return nil, errors.New("reftls: malformed extension block")
		}
		if seen[t] {
			return nil, fmt.Errorf("reftls: duplicate extension %d", t)
		}
		seen[t] = true
		out = append(out, TLSExt{t, d})
	}
	return out, nil
}

// ParseClientHello parses the payload of a handshake record that must contain exactly one
// ClientHello message.
func ParseClientHello(hs []byte) (*ClientHelloInfo, error) {
	r := &rd{b: hs}
	if r.u8() != 1 {
		return nil, errors.New("reftls: not a ClientHello")
	}
	l := r.u24()
	if r.err != nil || l != len(hs)-4 {
		return nil, fmt.Errorf("reftls: handshake length %d does not match record payload %d", l, len(hs)-4)
	}
	ch := &ClientHelloInfo{KeyShares: map[uint16][]byte{}}
	ch.LegacyVersion = uint16(r.u16())
	ch.Random = r.take(32)
	ch.SessionID = r.take(r.u8())
	cs := r.take(r.u16())
	if r.err != nil || len(cs)%2 != 0 || len(cs) == 0 {
		return nil, errors.New("reftls: malformed cipher suites")
	}
	for i := 0; i < len(cs); i += 2 {
		ch.CipherSuites = append(ch.CipherSuites, binary.BigEndian.Uint16(cs[i:]))
	}
	ch.Compression = r.take(r.u8())
	if r.err != nil || len(ch.Compression) == 0 {
		return nil, errors.New("reftls: malformed compression methods")
	}
	ext := r.take(r.u16())
	if r.err != nil || !r.done() {
		return nil, errors.New("reftls: malformed extensions length / trailing bytes")
	}
	exts, err := parseExts(ext)
	if err != nil {
		return nil, err
	}
	ch.Extensions = exts
	for _, e := range exts {
		switch e.Type {
		case 0: // server_name
			er := &rd{b: e.Data}
			list := er.take(er.u16())
			if er.err != nil || !er.done() {
				return nil, errors.New("reftls: malformed server_name")
			}
			lr := &rd{b: list}
			for !lr.done() {
				typ := lr.u8()
				name := lr.take(lr.u16())
				if lr.err != nil {
					return nil, errors.New("reftls: malformed server_name entry")
				}
				if typ == 0 {
					ch.SNI = string(name)
					ch.HasSNI = true
				}
			}
		case 51: // key_share
			er := &rd{b: e.Data}
			list := er.take(er.u16())
			if er.err != nil || !er.done() {
				return nil, errors.New("reftls: malformed key_share")
			}
			lr := &rd{b: list}
			for !lr.done() {
				grp := uint16(lr.u16())
				ke := lr.take(lr.u16())
				if lr.err != nil {
					return nil, errors.New("reftls: malformed key_share entry")
				}
				ch.KeyShares[grp] = ke
			}
		case 43: // supported_versions
			er := &rd{b: e.Data}
			list := er.take(er.u8())
			if er.err != nil || !er.done() || len(list)%2 != 0 {
				return nil, errors.New("reftls: malformed supported_versions")
			}
			for i := 0; i < len(list); i += 2 {
				ch.Versions = append(ch.Versions, binary.BigEndian.Uint16(list[i:]))
			}
		}
	}
	return ch, nil
}

type ServerHelloInfo struct {
	LegacyVersion uint16
	Random        []byte
	SessionID     []byte
	CipherSuite   uint16
	Compression   byte
	Extensions    []TLSExt
	KeyShareGroup uint16
	KeyShare      []byte
	SelectedVer   uint16
}

func ParseServerHello(hs []byte) (*ServerHelloInfo, error) {
	r := &rd{b: hs}
	if r.u8() != 2 {
		return nil, errors.New("reftls: not a ServerHello")
	}
	l := r.u24()
	if r.err != nil || l != len(hs)-4 {
		return nil, fmt.Errorf("reftls: ServerHello length %d does not match record payload %d", l, len(hs)-4)
	}
	sh := &ServerHelloInfo{}
	sh.LegacyVersion = uint16(r.u16())
	sh.Random = r.take(32)
	sh.SessionID = r.take(r.u8())
	sh.CipherSuite = uint16(r.u16())
	sh.Compression = byte(r.u8())
	ext := r.take(r.u16())
	if r.err != nil || !r.done() {
		return nil, errors.New("reftls: malformed ServerHello")
	}
	exts, err := parseExts(ext)
	if err != nil {
		return nil, err
	}
	sh.Extensions = exts
	for _, e := range exts {
		switch e.Type {
		case 51:
			er := &rd{b: e.Data}
			sh.KeyShareGroup = uint16(er.u16())
			sh.KeyShare = er.take(er.u16())
			if er.err != nil || !er.done() {
				return nil, errors.New("reftls: malformed ServerHello key_share")
			}
		case 43:
			if len(e.Data) != 2 {
				return nil, errors.New("reftls: malformed ServerHello supported_versions")
			}
			sh.SelectedVer = binary.BigEndian.Uint16(e.Data)
		}
	}
	return sh, nil
}

// ExtOrder returns a compact signature of the extension type order.
func ExtOrder(exts []TLSExt) string {
	s := ""
	for _, e := range exts {
		s += fmt.Sprintf("%x.", e.Type)
	}
	return s
}

// BuildClientHello serialises a ClientHello (with the given extension list) into one handshake
// record with consistent length fields.
func BuildClientHello(ch *ClientHelloInfo, exts []TLSExt) []byte {
	var extb []byte
	for _, e := range exts {
		extb = append(extb, byte(e.Type>>8), byte(e.Type), byte(len(e.Data)>>8), byte(len(e.Data)))
		extb = append(extb, e.Data...)
	}
	body := []byte{byte(ch.LegacyVersion >> 8), byte(ch.LegacyVersion)}
	body = append(body, ch.Random...)
	body = append(body, byte(len(ch.SessionID)))
	body = append(body, ch.SessionID...)
	body = append(body, byte(len(ch.CipherSuites)*2>>8), byte(len(ch.CipherSuites)*2))
	for _, c := range ch.CipherSuites {
		body = append(body, byte(c>>8), byte(c))
	}
	body = append(body, byte(len(ch.Compression)))
	body = append(body, ch.Compression...)
	body = append(body, byte(len(extb)>>8), byte(len(extb)))
	body = append(body, extb...)
	hs := append([]byte{1, byte(len(body) >> 16), byte(len(body) >> 8), byte(len(body))}, body...)
	return append([]byte{0x16, 0x03, 0x01, byte(len(hs) >> 8), byte(len(hs))}, hs...)
}
