package verifkit

import (
	"errors"
	"fmt"
	"io"
	"math/rand/v2"
	"net"
	"os"
	"runtime"
	"sync"
	"time"
)

// hnet - the hostile in-memory network (DESIGN.md 2.1). TCP semantics per connection (reliable
// ordered byte stream per direction, atomic Write, deadlines, Close seen by both ends) built only
// from sync.Mutex/sync.Cond so that waiting goroutines are durably blocked inside a synctest
// bubble. The harness chooses segmentation, cross-connection arrival order (router mode), delays
// and faults, and taps every byte.

type Addr string

func (a Addr) Network() string { return "tcp" }
func (a Addr) String() string  { return string(a) }

var (
	ErrReset      = errors.New("hnet: connection reset by peer")
	ErrBrokenPipe = errors.New("hnet: broken pipe")
	ErrClosed     = errors.New("hnet: use of closed connection")
	ErrInjected   = errors.New("hnet: injected write error (bytes were sent)")
)

// SegFunc decides how many of the avail unread bytes (starting at stream offset off) one Read
// may return. It is called with the half's lock held.
type SegFunc func(off int64, avail int) int

func SegAll() SegFunc { return func(off int64, avail int) int { return avail } }
func SegOne() SegFunc { return func(off int64, avail int) int { return 1 } }
func SegRandom(rng *rand.Rand) SegFunc {
	return func(off int64, avail int) int { return 1 + rng.IntN(avail) }
}

// SegSmall returns mostly tiny reads, sometimes everything.
func SegSmall(rng *rand.Rand) SegFunc {
	return func(off int64, avail int) int {
		if rng.IntN(4) == 0 {
			return avail
		}
		return 1 + rng.IntN(min(avail, 7))
	}
}

// SegCuts never lets a read cross one of the given absolute stream offsets.
func SegCuts(cuts ...int64) SegFunc {
	return func(off int64, avail int) int {
		n := avail
		for _, c := range cuts {
			if c > off && c-off < int64(n) {
				n = int(c - off)
			}
		}
		return n
	}
}

type Mark struct {
	Off  int64     // stream offset of the first byte of this Write
	N    int       // length of the Write
	Seq  int64     // global event number
	T    time.Time // (virtual) time of the Write
	TRel time.Time // time the bytes became readable (router mode), else = T
}

type Event struct {
	Seq  int64
	T    time.Time
	Pipe int
	Dir  int    // 0: A->B (dialer to acceptor), 1: B->A
	Kind string // write, read, close, break, eof, readerr, writeerr
	N    int
	Off  int64
}

// Item is one Write held by the router.
type Item struct {
	Pipe int
	Dir  int
	Off  int64
	Data []byte
	Seq  int64
	h    *half
}

type PipeOpts struct {
	Name   string
	Seg    [2]SegFunc // per direction; nil = SegAll
	Window int        // max unread+queued bytes per direction before Write blocks; 0 = unlimited
	Router bool       // writes are held until released
	Jitter int        // free-running: 1-in-Jitter writes yield the processor first (0 = never)
	// CutAt[dir] >= 0: after that many bytes of the direction the connection breaks (both ends).
	CutAt   [2]int64
	CutKind [2]string // "reset" (default) or "eof"
	NoCut   bool      // internal: CutAt not set
}

type Net struct {
	mu        sync.Mutex
	seq       int64
	pipes     []*Pipe
	TapBytes  bool // keep a copy of every byte per direction
	KeepReads bool // log (stream offset, time) of every Read call per direction
	KeepEv    bool // keep the event list
	Events    []Event
	// BeforeWrite, if set, is called at the start of every Conn.Write (no locks held); it may
	// break the connection so that this very Write fails.
	BeforeWrite func(c *Conn)
	arrival     []int32 // free-running: order in which (pipe,dir) writes happened, for interleaving signatures
}

func NewNet() *Net { return &Net{TapBytes: true, KeepEv: false} }

type half struct {
	p   *Pipe
	dir int
	mu  sync.Mutex
	c   *sync.Cond

	buf        []byte
	readOff    int64
	queue      []*Item
	queued     int
	total      int64
	wire       []byte
	marks      []Mark
	werr       error // writes fail
	rerr       error // reads fail after draining
	eof        bool
	seg        SegFunc
	rdl        time.Time
	rtimer     *time.Timer
	wdl        time.Time // write deadline of the writing end
	writing    bool      // a windowed Write is in progress (Write calls on one socket do not interleave)
	stalled    bool      // the network delivers nothing in this direction for now (bytes stay in flight)
	wtimer     *time.Timer
	cutAt      int64
	cutKind    string
	readerGone bool
	failNext   bool
	readCalls  []ReadCall
}

// ReadCall records that the reader came back for more at stream offset Off at time T.
type ReadCall struct {
	Off int64
	T   time.Time
}

// Stall stops (on) or resumes delivery in direction dir: bytes already written stay in flight, so
// with a bounded window the writer soon blocks in the middle of whatever it is writing.
func (p *Pipe) Stall(dir int, on bool) {
	h := p.h[dir]
	h.mu.Lock()
	h.stalled = on
	h.c.Broadcast()
	h.mu.Unlock()
}

// Consumed returns how many bytes of direction dir the reading end has taken out of the network.
func (p *Pipe) Consumed(dir int) int64 {
	h := p.h[dir]
	h.mu.Lock()
	defer h.mu.Unlock()
	return h.readOff
}

// ReadCalls returns the logged Read calls of direction dir (needs Net.KeepReads).
func (p *Pipe) ReadCalls(dir int) []ReadCall {
	h := p.h[dir]
	h.mu.Lock()
	defer h.mu.Unlock()
	return append([]ReadCall{}, h.readCalls...)
}

type Pipe struct {
	n    *Net
	Idx  int
	Name string
	h    [2]*half
	A, B *Conn
	opts PipeOpts
	rngJ *rand.Rand
}

type Conn struct {
	p      *Pipe
	side   int // 0 = A (writes dir 0, reads dir 1), 1 = B
	mu     sync.Mutex
	closed bool
	laddr  Addr
	raddr  Addr
}

func (n *Net) event(e Event) int64 {
	n.mu.Lock()
	n.seq++
	e.Seq = n.seq
	if n.KeepEv {
		n.Events = append(n.Events, e)
	}
	if e.Kind == "write" {
		n.arrival = append(n.arrival, int32(e.Pipe*2+e.Dir))
	}
	s := n.seq
	n.mu.Unlock()
	return s
}

// ArrivalSignature hashes the global order of writes across pipes/directions.
func (n *Net) ArrivalSignature() string {
	n.mu.Lock()
	defer n.mu.Unlock()
	return Hash64(n.arrival)
}

// NewPipe creates a connection; A is the dialing side.
func (n *Net) NewPipe(o PipeOpts) *Pipe {
	p := &Pipe{n: n, Name: o.Name, opts: o}
	for d := 0; d < 2; d++ {
		h := &half{p: p, dir: d, seg: o.Seg[d], cutAt: -1}
		if h.seg == nil {
			h.seg = SegAll()
		}
		h.c = sync.NewCond(&h.mu)
		if !o.NoCut && (o.CutAt[d] > 0 || o.CutKind[d] != "") {
			h.cutAt = o.CutAt[d]
			h.cutKind = o.CutKind[d]
		}
		p.h[d] = h
	}
	n.mu.Lock()
	p.Idx = len(n.pipes)
	n.pipes = append(n.pipes, p)
	n.mu.Unlock()
	if o.Jitter > 0 {
		p.rngJ = rand.New(rand.NewPCG(uint64(p.Idx)+1, 77))
	}
	p.A = &Conn{p: p, side: 0, laddr: Addr(fmt.Sprintf("10.1.%d.%d:%d", p.Idx/250, p.Idx%250+1, 40000+p.Idx%20000)), raddr: Addr("10.9.9.9:443")}
	p.B = &Conn{p: p, side: 1, laddr: Addr("10.9.9.9:443"), raddr: p.A.laddr}
	return p
}

func (n *Net) Pipes() []*Pipe {
	n.mu.Lock()
	defer n.mu.Unlock()
	return append([]*Pipe{}, n.pipes...)
}

// SetCut arms a fault: once `at` bytes have been written in direction dir the connection breaks.
func (p *Pipe) SetCut(dir int, at int64, kind string) {
	h := p.h[dir]
	h.mu.Lock()
	h.cutAt = at
	h.cutKind = kind
	h.mu.Unlock()
}

// Break fails the connection now: both ends' reads drain what is in flight and then fail (reset)
// or see EOF (kind "eof"); writes fail on both ends.
func (p *Pipe) Break(kind string) {
	for d := 0; d < 2; d++ {
		h := p.h[d]
		h.mu.Lock()
		h.brk(kind)
		h.mu.Unlock()
	}
	p.n.event(Event{T: time.Now(), Pipe: p.Idx, Kind: "break:" + kind})
}

func (h *half) brk(kind string) {
	if h.werr == nil {
		h.werr = ErrBrokenPipe
	}
	if h.rerr == nil && !h.eof {
		if kind == "eof" {
			h.eof = true
		} else {
			h.rerr = ErrReset
		}
	}
	h.c.Broadcast()
}

// Wire returns a copy of all bytes ever written in direction dir, and the write marks.
func (p *Pipe) Wire(dir int) ([]byte, []Mark) {
	h := p.h[dir]
	h.mu.Lock()
	defer h.mu.Unlock()
	return append([]byte{}, h.wire...), append([]Mark{}, h.marks...)
}

// Written returns the number of bytes accepted in direction dir so far.
func (p *Pipe) Written(dir int) int64 {
	h := p.h[dir]
	h.mu.Lock()
	defer h.mu.Unlock()
	return h.total
}

// ClosedBy reports which ends have called Close.
func (p *Pipe) ClosedBy() (a, b bool) {
	p.A.mu.Lock()
	a = p.A.closed
	p.A.mu.Unlock()
	p.B.mu.Lock()
	b = p.B.closed
	p.B.mu.Unlock()
	return
}

// Broken reports whether a fault was injected on the pipe.
func (p *Pipe) Broken() bool {
	h := p.h[0]
	h.mu.Lock()
	defer h.mu.Unlock()
	return h.rerr != nil || (h.werr == ErrBrokenPipe)
}

func (c *Conn) wh() *half { return c.p.h[c.side] }
func (c *Conn) rh() *half { return c.p.h[1-c.side] }

func (c *Conn) isClosed() bool {
	c.mu.Lock()
	defer c.mu.Unlock()
	return c.closed
}

func (c *Conn) Write(b []byte) (int, error) {
	p := c.p
	if bw := p.n.BeforeWrite; bw != nil {
		bw(c)
	}
	if p.rngJ != nil {
		p.n.mu.Lock()
		y := p.rngJ.IntN(p.opts.Jitter) == 0
		p.n.mu.Unlock()
		if y {
			runtime.Gosched()
		}
	}
	h := c.wh()
	h.mu.Lock()
	if c.isClosed() {
		h.mu.Unlock()
		return 0, ErrClosed
	}
	if h.werr != nil {
		err := h.werr
		h.mu.Unlock()
		p.n.event(Event{T: time.Now(), Pipe: p.Idx, Dir: h.dir, Kind: "writeerr", N: len(b)})
		return 0, err
	}
	if p.opts.Window > 0 && !p.opts.Router && h.cutAt < 0 {
		return c.writeWindowed(h, b)
	}
	for p.opts.Window > 0 && len(h.buf)+h.queued >= p.opts.Window && h.werr == nil && !c.isClosed() {
		h.c.Wait()
	}
	if h.werr != nil {
		err := h.werr
		h.mu.Unlock()
		return 0, err
	}
	if c.isClosed() {
		h.mu.Unlock()
		return 0, ErrClosed
	}
	data := b
	cut := false
	if h.cutAt >= 0 && h.total+int64(len(b)) >= h.cutAt {
		data = b[:h.cutAt-h.total]
		cut = true
	}
	now := time.Now()
	seq := p.n.event(Event{T: now, Pipe: p.Idx, Dir: h.dir, Kind: "write", N: len(b), Off: h.total})
	mk := Mark{Off: h.total, N: len(data), Seq: seq, T: now, TRel: now}
	if p.n.TapBytes {
		h.wire = append(h.wire, data...)
	}
	if len(data) > 0 {
		if p.opts.Router {
			it := &Item{Pipe: p.Idx, Dir: h.dir, Off: h.total, Data: append([]byte{}, data...), Seq: seq, h: h}
			h.queue = append(h.queue, it)
			h.queued += len(data)
		} else {
			h.buf = append(h.buf, data...)
		}
	}
	h.marks = append(h.marks, mk)
	h.total += int64(len(data))
	h.c.Broadcast()
	kind := h.cutKind
	fail := h.failNext
	h.failNext = false
	h.mu.Unlock()
	if cut {
		p.Break(kind)
	}
	if fail {
		return len(b), ErrInjected
	}
	return len(b), nil
}

// writeWindowed is Write on a connection with a bounded window (free-running delivery): like a
// TCP socket with a full send buffer it takes what fits, blocks for the rest, and gives up at the
// write deadline with the count of bytes already taken. Called with h.mu held; releases it.
func (c *Conn) writeWindowed(h *half, b []byte) (int, error) {
	p := c.p
	// one Write at a time per direction, as the kernel does for a socket (waiting on the condition
	// variable, not on a mutex: only the former is durable blocking for a synctest bubble)
	for h.writing {
		if c.isClosed() {
			h.mu.Unlock()
			return 0, ErrClosed
		}
		if h.werr != nil {
			err := h.werr
			h.mu.Unlock()
			return 0, err
		}
		if !h.wdl.IsZero() && !time.Now().Before(h.wdl) {
			h.mu.Unlock()
			return 0, os.ErrDeadlineExceeded
		}
		h.c.Wait()
	}
	h.writing = true
	now := time.Now()
	seq := p.n.event(Event{T: now, Pipe: p.Idx, Dir: h.dir, Kind: "write", N: len(b), Off: h.total})
	h.marks = append(h.marks, Mark{Off: h.total, N: len(b), Seq: seq, T: now, TRel: now})
	mi := len(h.marks) - 1
	done := 0
	var err error
	for done < len(b) {
		if c.isClosed() {
			err = ErrClosed
			break
		}
		if h.werr != nil {
			err = h.werr
			break
		}
		if !h.wdl.IsZero() && !time.Now().Before(h.wdl) {
			err = os.ErrDeadlineExceeded
			break
		}
		space := p.opts.Window - len(h.buf)
		if space <= 0 {
			h.c.Wait()
			continue
		}
		n := min(space, len(b)-done)
		if p.n.TapBytes {
			h.wire = append(h.wire, b[done:done+n]...)
		}
		h.buf = append(h.buf, b[done:done+n]...)
		h.total += int64(n)
		done += n
		h.c.Broadcast()
	}
	if done < len(b) {
		h.marks[mi].N = done // what really went out
	}
	h.writing = false
	h.c.Broadcast()
	fail := false
	if err == nil {
		fail = h.failNext
		h.failNext = false
	}
	h.mu.Unlock()
	if err != nil {
		return done, err
	}
	if fail {
		return len(b), ErrInjected
	}
	return len(b), nil
}

func (c *Conn) Read(b []byte) (int, error) {
	h := c.rh()
	h.mu.Lock()
	defer h.mu.Unlock()
	if c.p.n.KeepReads {
		h.readCalls = append(h.readCalls, ReadCall{Off: h.readOff, T: time.Now()})
	}
	for {
		if c.isClosed() {
			return 0, ErrClosed
		}
		if len(b) == 0 {
			return 0, nil
		}
		if len(h.buf) > 0 && !h.stalled {
			n := h.seg(h.readOff, len(h.buf))
			if n > len(b) {
				n = len(b)
			}
			if n < 1 {
				n = 1
			}
			copy(b, h.buf[:n])
			h.buf = h.buf[n:]
			if len(h.buf) == 0 {
				h.buf = nil
			}
			h.readOff += int64(n)
			h.c.Broadcast()
			return n, nil
		}
		if len(h.queue) == 0 && len(h.buf) == 0 {
			if h.rerr != nil {
				return 0, h.rerr
			}
			if h.eof {
				return 0, io.EOF
			}
		}
		if !h.rdl.IsZero() && !time.Now().Before(h.rdl) {
			return 0, os.ErrDeadlineExceeded
		}
		h.c.Wait()
	}
}

func (c *Conn) Close() error {
	c.mu.Lock()
	if c.closed {
		c.mu.Unlock()
		return ErrClosed
	}
	c.closed = true
	c.mu.Unlock()
	wh, rh := c.wh(), c.rh()
	wh.mu.Lock()
	if wh.rerr == nil {
		wh.eof = true
	}
	wh.c.Broadcast()
	wh.mu.Unlock()
	rh.mu.Lock()
	rh.readerGone = true
	if rh.werr == nil {
		rh.werr = ErrBrokenPipe
	}
	rh.c.Broadcast()
	rh.mu.Unlock()
	c.p.n.event(Event{T: time.Now(), Pipe: c.p.Idx, Dir: c.side, Kind: "close"})
	return nil
}

func (c *Conn) LocalAddr() net.Addr  { return c.laddr }
func (c *Conn) RemoteAddr() net.Addr { return c.raddr }

func (c *Conn) SetDeadline(t time.Time) error {
	c.SetWriteDeadline(t)
	return c.SetReadDeadline(t)
}

// SetWriteDeadline is honoured by writes that block on a bounded window.
func (c *Conn) SetWriteDeadline(t time.Time) error {
	h := c.wh()
	h.mu.Lock()
	defer h.mu.Unlock()
	h.wdl = t
	if h.wtimer != nil {
		h.wtimer.Stop()
		h.wtimer = nil
	}
	// (a deadline that has already passed needs no timer - the Broadcast below wakes the waiters; and
	// a bubbled timer that is due immediately is run on the spot by the runtime, which crashed under
	// the race detector)
	if d := time.Until(t); !t.IsZero() && d > 0 {
		h.wtimer = time.AfterFunc(d, func() {
			h.mu.Lock()
			h.c.Broadcast()
			h.mu.Unlock()
		})
	}
	h.c.Broadcast()
	return nil
}
func (c *Conn) SetReadDeadline(t time.Time) error {
	h := c.rh()
	h.mu.Lock()
	defer h.mu.Unlock()
	h.rdl = t
	if h.rtimer != nil {
		h.rtimer.Stop()
		h.rtimer = nil
	}
	if d := time.Until(t); !t.IsZero() && d > 0 {
		h.rtimer = time.AfterFunc(d, func() {
			h.mu.Lock()
			h.c.Broadcast()
			h.mu.Unlock()
		})
	}
	h.c.Broadcast()
	return nil
}

// Pipe returns the pipe this endpoint belongs to.
func (c *Conn) Pipe() *Pipe { return c.p }

// Side is 0 for the dialing end, 1 for the accepting end.
func (c *Conn) Side() int { return c.side }

// ---------------------------------------------------------------------------------------------
// router

// Heads returns the oldest held Write of every direction that has one.
func (n *Net) Heads() []*Item {
	var out []*Item
	for _, p := range n.Pipes() {
		for d := 0; d < 2; d++ {
			h := p.h[d]
			h.mu.Lock()
			if len(h.queue) > 0 {
				out = append(out, h.queue[0])
			}
			h.mu.Unlock()
		}
	}
	return out
}

// Release makes a held Write readable. Only the head of its direction may be released.
func (n *Net) Release(it *Item) {
	h := it.h
	h.mu.Lock()
	if len(h.queue) == 0 || h.queue[0] != it {
		h.mu.Unlock()
		panic("hnet: Release of an item that is not the head of its direction")
	}
	h.queue = h.queue[1:]
	h.queued -= len(it.Data)
	h.buf = append(h.buf, it.Data...)
	for i := range h.marks {
		if h.marks[i].Seq == it.Seq {
			h.marks[i].TRel = time.Now()
		}
	}
	h.c.Broadcast()
	h.mu.Unlock()
}

// ReleaseCut delivers only the first nbytes of the head item, drops everything that was written
// after them in that direction, and breaks the connection (both ends). It models a reset/EOF that
// hits the byte stream at an arbitrary offset inside a record.
func (n *Net) ReleaseCut(it *Item, nbytes int, kind string) {
	h := it.h
	h.mu.Lock()
	if len(h.queue) == 0 || h.queue[0] != it {
		h.mu.Unlock()
		panic("hnet: ReleaseCut of an item that is not the head of its direction")
	}
	if nbytes > len(it.Data) {
		nbytes = len(it.Data)
	}
	h.buf = append(h.buf, it.Data[:nbytes]...)
	h.queue = nil
	h.queued = 0
	h.c.Broadcast()
	h.mu.Unlock()
	h.p.Break(kind)
}

// FailNextWrite makes the next Write in direction dir deliver its bytes but return an error
// (a send whose failure is reported although the bytes left); the connection stays usable.
func (p *Pipe) FailNextWrite(dir int) {
	h := p.h[dir]
	h.mu.Lock()
	h.failNext = true
	h.mu.Unlock()
}

// SetRouter switches a pipe between held and immediate delivery; switching off releases everything.
func (p *Pipe) SetRouter(on bool) {
	for d := 0; d < 2; d++ {
		h := p.h[d]
		h.mu.Lock()
		if !on {
			for _, it := range h.queue {
				h.buf = append(h.buf, it.Data...)
			}
			h.queue = nil
			h.queued = 0
			h.c.Broadcast()
		}
		h.mu.Unlock()
	}
	p.opts.Router = on
}

// ---------------------------------------------------------------------------------------------
// listener / dialer

type Listener struct {
	n      *Net
	addr   Addr
	mu     sync.Mutex
	c      *sync.Cond
	q      []*Conn
	closed bool
	dials  int
	// OnDial supplies the options of the idx-th connection dialled to this listener.
	OnDial func(idx int) PipeOpts
	// FailDial, if set, may refuse the idx-th dial.
	FailDial func(idx int) error
}

func (n *Net) Listen(addr string) *Listener {
	l := &Listener{n: n, addr: Addr(addr)}
	l.c = sync.NewCond(&l.mu)
	return l
}

func (l *Listener) Accept() (net.Conn, error) {
	l.mu.Lock()
	defer l.mu.Unlock()
	for len(l.q) == 0 && !l.closed {
		l.c.Wait()
	}
	if len(l.q) == 0 {
		return nil, ErrClosed
	}
	c := l.q[0]
	l.q = l.q[1:]
	return c, nil
}

func (l *Listener) Close() error {
	l.mu.Lock()
	l.closed = true
	l.c.Broadcast()
	l.mu.Unlock()
	return nil
}

func (l *Listener) Addr() net.Addr { return l.addr }

// Dial implements Cloak's common.Dialer.
func (l *Listener) Dial(network, address string) (net.Conn, error) {
	c, _, err := l.DialPipe()
	if err != nil {
		return nil, err
	}
	return c, nil
}

// DialPipe is Dial that also returns the pipe.
func (l *Listener) DialPipe() (*Conn, *Pipe, error) {
	l.mu.Lock()
	idx := l.dials
	l.dials++
	od, fd := l.OnDial, l.FailDial
	closed := l.closed
	l.mu.Unlock()
	if closed {
		return nil, nil, errors.New("hnet: connection refused")
	}
	if fd != nil {
		if err := fd(idx); err != nil {
			return nil, nil, err
		}
	}
	o := PipeOpts{NoCut: true}
	if od != nil {
		l.mu.Lock() // OnDial callbacks are serialised (they usually share a PRNG)
		o = od(idx)
		l.mu.Unlock()
	}
	p := l.n.NewPipe(o)
	p.B.laddr = l.addr
	p.A.raddr = l.addr
	l.mu.Lock()
	l.q = append(l.q, p.B)
	l.c.Broadcast()
	l.mu.Unlock()
	return p.A, p, nil
}
