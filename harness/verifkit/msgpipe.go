package verifkit

import (
	"io"
	"net"
	"os"
	"sync"
	"time"
)

// MsgPipe is an in-memory, message-preserving connection pair (a connected datagram socket):
// every Write is one message, every Read returns exactly one message (truncated to the buffer,
// as a datagram socket does). Nothing is dropped or reordered.
type msgEnd struct {
	mu     *sync.Mutex
	c      *sync.Cond
	in     *[][]byte
	out    *[][]byte
	closed *bool
	rdl    time.Time
}

func MsgPipe() (net.Conn, net.Conn) {
	var mu sync.Mutex
	c := sync.NewCond(&mu)
	var ab, ba [][]byte
	closed := false
	return &msgEnd{&mu, c, &ba, &ab, &closed, time.Time{}}, &msgEnd{&mu, c, &ab, &ba, &closed, time.Time{}}
}

func (e *msgEnd) Read(b []byte) (int, error) {
	e.mu.Lock()
	defer e.mu.Unlock()
	for len(*e.in) == 0 {
		if *e.closed {
			return 0, io.EOF
		}
		if !e.rdl.IsZero() && !time.Now().Before(e.rdl) {
			return 0, os.ErrDeadlineExceeded
		}
		e.c.Wait()
	}
	m := (*e.in)[0]
	*e.in = (*e.in)[1:]
	return copy(b, m), nil
}

func (e *msgEnd) Write(b []byte) (int, error) {
	e.mu.Lock()
	defer e.mu.Unlock()
	if *e.closed {
		return 0, io.ErrClosedPipe
	}
	*e.out = append(*e.out, append([]byte{}, b...))
	e.c.Broadcast()
	return len(b), nil
}

func (e *msgEnd) Close() error {
	e.mu.Lock()
	*e.closed = true
	e.c.Broadcast()
	e.mu.Unlock()
	return nil
}

func (e *msgEnd) LocalAddr() net.Addr  { return Addr("10.0.0.2:2222") }
func (e *msgEnd) RemoteAddr() net.Addr { return Addr("10.0.0.2:2222") }
func (e *msgEnd) SetDeadline(t time.Time) error {
	return e.SetReadDeadline(t)
}
func (e *msgEnd) SetWriteDeadline(t time.Time) error { return nil }
func (e *msgEnd) SetReadDeadline(t time.Time) error {
	e.mu.Lock()
	e.rdl = t
	e.c.Broadcast()
	e.mu.Unlock()
	if !t.IsZero() {
		time.AfterFunc(time.Until(t), func() { e.mu.Lock(); e.c.Broadcast(); e.mu.Unlock() })
	}
	return nil
}
