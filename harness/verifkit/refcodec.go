package verifkit

import (
	"crypto/aes"
	"crypto/cipher"
	"encoding/binary"
	"errors"

	"golang.org/x/crypto/chacha20poly1305"
	"golang.org/x/crypto/salsa20"
)

// Independent implementation of the Cloak v2 frame layout, written from the description of the
// format (DESIGN.md 2.4); shares no code with internal/multiplex/obfs.go.
//
//	message = XOR_salsa20(header) || body || tag-or-nonce
//	header  = StreamID(4, BE) | Seq(8, BE) | Closing(1) | ExtraLen(1)
//	body    = AEAD: Seal(payload || padding) with nonce = header[0:12], no AAD  (tag appended)
//	          plain: payload || padding || 8 random bytes
//	ExtraLen = len(padding) + len(tag)  (plain: + 8)
//	the salsa20 nonce is the last 8 bytes of the message, key is the 32-byte session key.

const (
	RefPlain   = 0
	RefAES256  = 1
	RefChaCha  = 2
	RefAES128  = 3
	RefHdrLen  = 14
	RefMaxWire = 16401
)

type RefFrame struct {
	StreamID uint32
	Seq      uint64
	Closing  byte
	Payload  []byte
	ExtraLen int // as found on the wire (decode only)
}

type RefCodec struct {
	Method byte
	Key    [32]byte
	aead   cipher.AEAD
}

func NewRefCodec(method byte, key [32]byte) (*RefCodec, error) {
	c := &RefCodec{Method: method, Key: key}
	switch method {
	case RefPlain:
	case RefAES256:
		b, err := aes.NewCipher(key[:])
		if err != nil {
			return nil, err
		}
		c.aead, err = cipher.NewGCM(b)
		if err != nil {
			return nil, err
		}
	case RefAES128:
		b, err := aes.NewCipher(key[:16])
		if err != nil {
			return nil, err
		}
		c.aead, err = cipher.NewGCM(b)
		if err != nil {
			return nil, err
		}
	case RefChaCha:
		var err error
		c.aead, err = chacha20poly1305.New(key[:])
		if err != nil {
			return nil, err
		}
	default:
		return nil, errors.New("refcodec: unknown method")
	}
	return c, nil
}

// TagLen is the number of trailing bytes that are not payload or padding.
func (c *RefCodec) TagLen() int {
	if c.aead == nil {
		return 8
	}
	return c.aead.Overhead()
}

// Encode builds a message. padding is the literal padding bytes; trailer is used as the last 8
// bytes in plain mode (ignored for AEAD methods).
func (c *RefCodec) Encode(f RefFrame, padding []byte, trailer [8]byte) ([]byte, error) {
	if len(f.Payload) == 0 {
		return nil, errors.New("refcodec: empty payload")
	}
	extra := len(padding) + c.TagLen()
	if extra > 255 {
		return nil, errors.New("refcodec: extra length above 255")
	}
	hdr := make([]byte, RefHdrLen)
	binary.BigEndian.PutUint32(hdr[0:4], f.StreamID)
	binary.BigEndian.PutUint64(hdr[4:12], f.Seq)
	hdr[12] = f.Closing
	hdr[13] = byte(extra)
	body := append(append([]byte{}, f.Payload...), padding...)
	var rest []byte
	if c.aead != nil {
		rest = c.aead.Seal(nil, hdr[:12], body, nil)
	} else {
		rest = append(body, trailer[:]...)
	}
	msg := append(hdr, rest...)
	nonce := msg[len(msg)-8:]
	salsa20.XORKeyStream(msg[:RefHdrLen], msg[:RefHdrLen], nonce, &c.Key)
	return msg, nil
}

// EncodePlainShort builds a plain-method message WITHOUT a dedicated nonce trailer: the layout only
// says that the last 8 bytes of the message key the header cipher, whatever they are, and that the
// extra-length byte counts the bytes after the payload. extra may be 0..255 as long as payload +
// extra is at least 8 bytes (older Cloak encoders emit extra = max(0, 8 - len(payload))).
func (c *RefCodec) EncodePlainShort(f RefFrame, extra []byte) ([]byte, error) {
	if c.aead != nil {
		return nil, errors.New("refcodec: EncodePlainShort is for the plain method")
	}
	if len(f.Payload) == 0 || len(f.Payload)+len(extra) < 8 || len(extra) > 255 {
		return nil, errors.New("refcodec: payload + extra must be at least 8 bytes")
	}
	hdr := make([]byte, RefHdrLen)
	binary.BigEndian.PutUint32(hdr[0:4], f.StreamID)
	binary.BigEndian.PutUint64(hdr[4:12], f.Seq)
	hdr[12] = f.Closing
	hdr[13] = byte(len(extra))
	msg := append(append(hdr, f.Payload...), extra...)
	nonce := append([]byte{}, msg[len(msg)-8:]...)
	salsa20.XORKeyStream(msg[:RefHdrLen], msg[:RefHdrLen], nonce, &c.Key)
	return msg, nil
}

// Decode parses a message without modifying it.
func (c *RefCodec) Decode(msg []byte) (RefFrame, error) {
	var f RefFrame
	if len(msg) < RefHdrLen+8 {
		return f, errors.New("refcodec: message too short")
	}
	hdr := make([]byte, RefHdrLen)
	salsa20.XORKeyStream(hdr, msg[:RefHdrLen], msg[len(msg)-8:], &c.Key)
	f.StreamID = binary.BigEndian.Uint32(hdr[0:4])
	f.Seq = binary.BigEndian.Uint64(hdr[4:12])
	f.Closing = hdr[12]
	f.ExtraLen = int(hdr[13])
	rest := msg[RefHdrLen:]
	if f.ExtraLen > len(rest) {
		return f, errors.New("refcodec: extra length exceeds body")
	}
	if c.aead != nil {
		plain, err := c.aead.Open(nil, hdr[:12], rest, nil)
		if err != nil {
			return f, err
		}
		n := len(rest) - f.ExtraLen
		if n < 0 || n > len(plain) {
			return f, errors.New("refcodec: extra length inconsistent with tag")
		}
		f.Payload = plain[:n]
	} else {
		f.Payload = append([]byte{}, rest[:len(rest)-f.ExtraLen]...)
	}
	return f, nil
}
