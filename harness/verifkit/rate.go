package verifkit

import (
	"sort"
	"time"
)

// RateEv is one metered event: n bytes at (virtual) time T since the start of the run.
type RateEv struct {
	T time.Duration
	N int64
}

// RateExcess evaluates the token-bucket bound over ALL intervals exactly:
// sum(n_i..n_j) <= 1.01*(rate*(t_j - t_i) + burst) for all i <= j (running-minimum formulation).
// It returns the worst excess (<= 0 means the bound holds), the event at which it occurs and the
// length of the offending interval.
func RateExcess(evs []RateEv, rate float64, burst float64) (excess float64, at RateEv, span time.Duration) {
	sort.SliceStable(evs, func(a, b int) bool { return evs[a].T < evs[b].T })
	rp := rate * 1.01
	burst *= 1.01 // "within the limiter's 1% granularity" (its tokens arrive in quanta at tick boundaries)
	var cum float64
	minv := 0.0
	minT := time.Duration(0)
	first := true
	for _, e := range evs {
		v := cum - rp*e.T.Seconds()
		if first || v < minv {
			minv, minT, first = v, e.T, false
		}
		cum += float64(e.N)
		ex := (cum - rp*e.T.Seconds()) - minv - burst
		if ex > excess {
			excess, at, span = ex, e, e.T-minT
		}
	}
	return
}
