// Package verifkit holds the instruments of the /verif runtime-monitoring harness that are
// independent of Cloak: it imports nothing from the module under test.
package verifkit

import (
	"encoding/json"
	"fmt"
	"hash/fnv"
	"math/rand/v2"
	"os"
	"strconv"
	"strings"
	"sync"
)

// Reporter writes the JSONL protocol understood by /verif/vcheck.
type Reporter struct {
	mu       sync.Mutex
	f        *os.File
	Seed     uint64
	Tier     string
	shardI   int
	shardN   int
	only     string
	done     map[string]bool // VERIF_RESUME: cases that already have a result from an earlier attempt of this shard
	caseIdx  int
	counters map[string]int64
	maxes    map[string]int64
	distinct map[string]map[string]struct{}
	samples  []any
	maxSamp  int
}

// Open creates the reporter from the environment set by vcheck. Without VERIF_OUT it writes
// to stderr, so the test binaries can also be run by hand.
func Open() *Reporter {
	r := &Reporter{counters: map[string]int64{}, maxes: map[string]int64{}, distinct: map[string]map[string]struct{}{}, maxSamp: 4}
	r.Seed = 1
	if s := os.Getenv("VERIF_SEED"); s != "" {
		if v, err := strconv.ParseUint(s, 10, 64); err == nil {
			r.Seed = v
		}
	}
	r.Tier = os.Getenv("VERIF_TIER")
	if r.Tier != "thorough" {
		r.Tier = "quick"
	}
	r.shardI, r.shardN = 0, 1
	if s := os.Getenv("VERIF_SHARD"); s != "" {
		parts := strings.Split(s, "/")
		if len(parts) == 2 {
			r.shardI, _ = strconv.Atoi(parts[0])
			r.shardN, _ = strconv.Atoi(parts[1])
			if r.shardN < 1 {
				r.shardN = 1
			}
		}
	}
	r.only = os.Getenv("VERIF_ONLY")
	// VERIF_RESUME lists JSONL files of earlier attempts of this shard that ended in a failure of the
	// tooling itself (the sanitizer runtime aborting on one of its own internal checks): cases that
	// already have a result are not run again, the case that was in flight is.
	for _, p := range strings.Split(os.Getenv("VERIF_RESUME"), ":") {
		if p == "" {
			continue
		}
		b, err := os.ReadFile(p)
		if err != nil {
			continue
		}
		for _, ln := range strings.Split(string(b), "\n") {
			var e struct {
				Ev string `json:"ev"`
				ID string `json:"id"`
			}
			if json.Unmarshal([]byte(ln), &e) == nil && e.Ev == "result" {
				if r.done == nil {
					r.done = map[string]bool{}
				}
				r.done[e.ID] = true
			}
		}
	}
	if p := os.Getenv("VERIF_OUT"); p != "" {
		f, err := os.OpenFile(p, os.O_CREATE|os.O_WRONLY|os.O_APPEND, 0644)
		if err != nil {
			panic(err)
		}
		r.f = f
	} else {
		r.f = os.Stderr
	}
	return r
}

// Thorough reports whether the thorough tier was requested.
func (r *Reporter) Thorough() bool { return r.Tier == "thorough" }

// Pick returns q for the quick tier and t for the thorough tier.
func (r *Reporter) Pick(q, t int) int {
	if r.Thorough() {
		return t
	}
	return q
}

// Mine decides whether the case with this id belongs to this shard (round robin over the order
// in which ids are offered, which is deterministic for a given seed and tier) and is selected by
// VERIF_ONLY. Every case generator must call Mine for every case in the same order in all shards.
func (r *Reporter) Mine(id string) bool {
	r.mu.Lock()
	idx := r.caseIdx
	r.caseIdx++
	r.mu.Unlock()
	if r.only != "" {
		return id == r.only
	}
	return idx%r.shardN == r.shardI && !r.done[id]
}

// Rand returns a PRNG determined by the run seed and the given labels only.
func (r *Reporter) Rand(labels ...any) *rand.Rand {
	h := fnv.New64a()
	fmt.Fprint(h, r.Seed)
	for _, l := range labels {
		fmt.Fprint(h, "|", l)
	}
	s := h.Sum64()
	return rand.New(rand.NewPCG(s, s^0x9e3779b97f4a7c15))
}

func (r *Reporter) emit(v any) {
	b, err := json.Marshal(v)
	if err != nil {
		b, _ = json.Marshal(map[string]any{"ev": "error", "detail": err.Error()})
	}
	b = append(b, '\n')
	r.mu.Lock()
	r.f.Write(b)
	r.mu.Unlock()
}

// Case logs that a case is about to run (before any code under test is invoked).
func (r *Reporter) Case(id string, params any) {
	setCurrent(r, id)
	r.flushCov() // what earlier cases observed survives even if this one takes the process down
	if id == os.Getenv("VERIF_SELFTEST_TOOLCRASH") && os.Getenv("VERIF_RESUME") == "" {
		// self-test of the driver's resume logic: die the way the sanitizer runtime does
		r.emit(map[string]any{"ev": "case", "id": id, "params": params})
		fmt.Fprintln(os.Stderr, "ThreadSanitizer: CHECK failed: selftest (simulated)")
		os.Exit(66)
	}
	r.emit(map[string]any{"ev": "case", "id": id, "params": params})
}

// Pass records that the oracle held on this case.
func (r *Reporter) Pass(id string) {
	r.emit(map[string]any{"ev": "result", "id": id, "verdict": "pass"})
}

// Violation records a witness. key identifies the input class / call site / history shape and is
// what known_findings.json matches on.
func (r *Reporter) Violation(id, key, detail string, replay any) {
	r.emit(map[string]any{"ev": "result", "id": id, "verdict": "violation", "key": key, "detail": detail, "replay": replay})
}

// Inconclusive records that the case could not be decided.
func (r *Reporter) Inconclusive(id, detail string) {
	r.emit(map[string]any{"ev": "result", "id": id, "verdict": "inconclusive", "detail": detail})
}

// Count adds n to an additive coverage counter.
func (r *Reporter) Count(name string, n int64) {
	r.mu.Lock()
	r.counters[name] += n
	r.mu.Unlock()
}

// Max records the maximum seen for name.
func (r *Reporter) Max(name string, v int64) {
	r.mu.Lock()
	if cur, ok := r.maxes[name]; !ok || v > cur {
		r.maxes[name] = v
	}
	r.mu.Unlock()
}

// Distinct adds sig to the named set of distinct signatures (hashed to 64 bit when long).
func (r *Reporter) Distinct(set string, sig string) {
	if len(sig) > 24 {
		h := fnv.New64a()
		h.Write([]byte(sig))
		sig = strconv.FormatUint(h.Sum64(), 36)
	}
	r.mu.Lock()
	m := r.distinct[set]
	if m == nil {
		m = map[string]struct{}{}
		r.distinct[set] = m
	}
	m[sig] = struct{}{}
	r.mu.Unlock()
}

// Sample keeps a few actual cases for the evidence file.
func (r *Reporter) Sample(v any) {
	r.mu.Lock()
	if len(r.samples) < r.maxSamp {
		r.samples = append(r.samples, v)
	}
	r.mu.Unlock()
}

// Close flushes counters and marks the shard as finished.
func (r *Reporter) Close() {
	if p := recover(); p != nil {
		// the test function is panicking: do not mark the shard as finished
		r.emit(map[string]any{"ev": "panic", "detail": fmt.Sprint(p)})
		panic(p)
	}
	r.flushCov()
	r.emit(map[string]any{"ev": "done"})
}

// flushCov writes the coverage observed since the last flush (the driver adds counters up, takes
// the maximum of maxima and the union of the distinct sets) and starts afresh.
func (r *Reporter) flushCov() {
	r.mu.Lock()
	if len(r.counters) == 0 && len(r.maxes) == 0 && len(r.distinct) == 0 && len(r.samples) == 0 {
		r.mu.Unlock()
		return
	}
	d := map[string][]string{}
	for n, m := range r.distinct {
		l := make([]string, 0, len(m))
		for s := range m {
			l = append(l, s)
		}
		d[n] = l
	}
	cov := map[string]any{"ev": "cov", "counters": r.counters, "max": r.maxes, "distinct": d, "samples": r.samples}
	r.maxSamp -= len(r.samples)
	r.counters, r.maxes, r.distinct, r.samples = map[string]int64{}, map[string]int64{}, map[string]map[string]struct{}{}, nil
	r.mu.Unlock()
	r.emit(cov)
}

// Hash64 is a convenience for building signatures.
func Hash64(parts ...any) string {
	h := fnv.New64a()
	for _, p := range parts {
		fmt.Fprint(h, p, "|")
	}
	return strconv.FormatUint(h.Sum64(), 36)
}
