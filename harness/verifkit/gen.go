package verifkit

import "encoding/binary"

// Tagged, self-describing payloads (DESIGN.md 2.2): byte i of the stream identified by tag is a
// pure function of (tag, i), so a receiver can check every byte incrementally and a byte that
// leaked from another stream is recognised as wrong at its first offset.

func mix64(x uint64) uint64 {
	x += 0x9e3779b97f4a7c15
	x = (x ^ (x >> 30)) * 0xbf58476d1ce4e5b9
	x = (x ^ (x >> 27)) * 0x94d049bb133111eb
	return x ^ (x >> 31)
}

// GenByte returns byte off of stream tag. The first 8 bytes of every stream are the tag itself
// (big endian) so that an acceptor can learn which stream it got.
func GenByte(tag uint64, off int64) byte {
	if off < 8 {
		return byte(tag >> (56 - 8*uint(off)))
	}
	w := mix64(tag*0x100000001b3 ^ uint64(off>>3))
	return byte(w >> (8 * uint(off&7)))
}

// Fill writes bytes [off, off+len(buf)) of stream tag into buf.
func Fill(tag uint64, off int64, buf []byte) {
	for i := range buf {
		buf[i] = GenByte(tag, off+int64(i))
	}
}

// Check compares buf with bytes [off, ...) of stream tag; it returns the index of the first
// mismatch or -1.
func Check(tag uint64, off int64, buf []byte) int {
	for i := range buf {
		if buf[i] != GenByte(tag, off+int64(i)) {
			return i
		}
	}
	return -1
}

// TagOf extracts the tag from the first 8 bytes of a stream.
func TagOf(first8 []byte) uint64 { return binary.BigEndian.Uint64(first8) }

// Datagram builds a self-describing message: writer(4) counter(4) length(4) body... checksum(8).
// Minimum size is 20 bytes; smaller sizes get a compact form: just `size` bytes derived from
// (writer,counter) with the first byte = size marker.
func Datagram(writer, counter uint32, size int) []byte {
	b := make([]byte, size)
	if size < 20 {
		for i := range b {
			b[i] = byte(mix64(uint64(writer)<<32|uint64(counter)) >> (8 * uint(i%8)))
		}
		return b
	}
	binary.BigEndian.PutUint32(b[0:], writer)
	binary.BigEndian.PutUint32(b[4:], counter)
	binary.BigEndian.PutUint32(b[8:], uint32(size))
	tag := uint64(writer)<<32 | uint64(counter)
	for i := 12; i < size-8; i++ {
		b[i] = GenByte(tag^0xabcdef, int64(i)+8)
	}
	binary.BigEndian.PutUint64(b[size-8:], dsum(b[:size-8]))
	return b
}

func dsum(b []byte) uint64 {
	h := uint64(1469598103934665603)
	for _, c := range b {
		h = (h ^ uint64(c)) * 1099511628211
	}
	return mix64(h)
}

// ParseDatagram validates a message produced by Datagram (size >= 20).
func ParseDatagram(b []byte) (writer, counter uint32, ok bool) {
	if len(b) < 20 {
		return 0, 0, false
	}
	writer = binary.BigEndian.Uint32(b[0:])
	counter = binary.BigEndian.Uint32(b[4:])
	if int(binary.BigEndian.Uint32(b[8:])) != len(b) {
		return writer, counter, false
	}
	if binary.BigEndian.Uint64(b[len(b)-8:]) != dsum(b[:len(b)-8]) {
		return writer, counter, false
	}
	return writer, counter, true
}
