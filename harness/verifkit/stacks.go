package verifkit

import (
	"regexp"
	"runtime"
	"sort"
	"strings"
)

// Goroutine-dump classifier (DESIGN.md 2.7): the goroutine header names the wait reason, the
// frames below tell which Cloak function is waiting.

type GInfo struct {
	ID     string
	Reason string   // e.g. "sync.Mutex.Lock", "sync.RWMutex.RLock", "chan receive", "running"
	Funcs  []string // function names, innermost first
	Files  []string // source file of each frame (same index as Funcs)
}

var gHeader = regexp.MustCompile(`^goroutine (\d+)(?: gp=\S+ m=\S+(?: mp=\S+)?)? \[([^\],]+)(?:, [^\]]*)?\]:`)

// Goroutines parses runtime.Stack(all).
func Goroutines() []GInfo {
	buf := make([]byte, 1<<22)
	n := runtime.Stack(buf, true)
	return ParseGoroutines(string(buf[:n]))
}

func ParseGoroutines(dump string) []GInfo {
	var out []GInfo
	for _, blk := range strings.Split(dump, "\n\n") {
		lines := strings.Split(strings.TrimSpace(blk), "\n")
		if len(lines) == 0 {
			continue
		}
		m := gHeader.FindStringSubmatch(lines[0])
		if m == nil {
			continue
		}
		g := GInfo{ID: m[1], Reason: m[2]}
		for k := 1; k < len(lines); k++ {
			ln := lines[k]
			if strings.HasPrefix(ln, "\t") || strings.HasPrefix(ln, "created by") {
				continue
			}
			if i := strings.LastIndex(ln, "("); i > 0 {
				g.Funcs = append(g.Funcs, ln[:i])
				file := ""
				if k+1 < len(lines) && strings.HasPrefix(lines[k+1], "\t") {
					file = strings.TrimSpace(lines[k+1])
					if j := strings.Index(file, ":"); j > 0 {
						file = file[:j]
					}
				}
				g.Files = append(g.Files, file)
			}
		}
		out = append(out, g)
	}
	return out
}

// BlockedIn returns, for goroutines whose stack contains a function with the given substring,
// a sorted list "id reason innermost-matching-function".
func BlockedIn(gs []GInfo, substr string) []string {
	var out []string
	for _, g := range gs {
		for _, f := range g.Funcs {
			if strings.Contains(f, substr) {
				out = append(out, g.ID+" ["+g.Reason+"] "+f)
				break
			}
		}
	}
	sort.Strings(out)
	return out
}

// IsLockWait reports whether a wait reason is a mutex wait (which only another goroutine's
// unlock can end).
func IsLockWait(reason string) bool {
	return strings.HasPrefix(reason, "sync.Mutex.Lock") || strings.HasPrefix(reason, "sync.RWMutex.RLock") || strings.HasPrefix(reason, "sync.RWMutex.Lock")
}

// IsRepoSource reports whether a source file belongs to the code under test (not to the harness,
// the runtime, the standard library or a dependency).
func IsRepoSource(file string) bool {
	if !strings.Contains(file, "/internal/") && !strings.Contains(file, "/cmd/") {
		return false
	}
	if strings.Contains(file, "/pkg/mod/") || strings.Contains(file, "/opt/veriftools/") || strings.Contains(file, "/internal/verifkit/") {
		return false
	}
	base := file[strings.LastIndex(file, "/")+1:]
	return !strings.HasPrefix(base, "zz_verif_") && !strings.HasSuffix(base, "_test.go")
}
