#!/usr/bin/env python3
"""Regenerate /verif/MANIFEST.json from tools/registry.py (single source of truth)."""
import json, os, subprocess, sys
VERIF = os.path.dirname(os.path.dirname(os.path.abspath(__file__)))
sys.path.insert(0, os.path.join(VERIF, 'tools'))
from registry import CHECKS, NOT_APPLICABLE, HOOK_COMMITS

checks = []
for pid in sorted(CHECKS):
    c = CHECKS[pid]
    checks.append({
        'property_id': pid,
        'quick_cmd': './vcheck %s quick' % pid,
        'thorough_cmd': './vcheck %s thorough' % pid,
        'evidence_file': '/verif/evidence/%s.json' % pid,
        'replay_cmd_template': './vcheck replay {path}',
        'engine': 'vcheck',
        'level_claimed': {'category': c['level'], 'text': c['level_text'], 'design_ref': c.get('design_ref', 'DESIGN.md section 3, ' + pid)},
        'level_note': c['level_note'],
        'technique': c['technique'],
    })
m = {
    'version': 1,
    'setup_cmd': './vcheck setup',
    'hooks': {
        'guard': 'verif',
        'enable': 'go1.26.8 test -c -race -tags verif -overlay=<harness overlay> -modfile=<go.mod + porcupine> (done by ./vcheck for every check)',
        'baseline_off_cmd': '/verif/tools/baseline_off.py',
        'source_commits': HOOK_COMMITS,
        'add_only': True,
    },
    'engines': [{
        'name': 'vcheck', 'path': '/verif/vcheck', 'serves_properties': sorted(CHECKS),
        'kind_free_text': 'python driver: builds harness test binaries from /repo working tree (overlay, -race, -tags verif), runs sharded child '
                          'processes, classifies crashes and race reports, matches known findings, writes evidence',
    }],
    'checks': checks,
    'not_applicable': [{'property_id': k, 'reason': v} for k, v in sorted(NOT_APPLICABLE.items())],
    'notes': 'Runtime monitoring only: every verdict is an oracle over executions of the real code. See DESIGN.md.',
}
json.dump(m, open(os.path.join(VERIF, 'MANIFEST.json'), 'w'), indent=1)
print('MANIFEST.json: %d checks, %d not_applicable' % (len(checks), len(m['not_applicable'])))
