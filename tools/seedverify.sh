#!/bin/bash
# seedverify.sh <PROP> <variant>   -- confirm a seeded change from /tmp/seed/<PROP>/_seed/<variant> in a
# scratch worktree of /repo HEAD: demo passes without the patch, fails with it, suite passes with it.
# On success copies it to /verif/seeded/<PROP><variant>/.
set -u
P=$1; V=$2
SRC=/tmp/seed/$P/_seed/$V
WT=/tmp/sv-$P$V
export GOFLAGS=-mod=mod
git -C /repo worktree remove --force $WT 2>/dev/null
git -C /repo worktree add -q --detach $WT HEAD || exit 2
cd $WT
CMD=$(python3 -c "import json;print(json.load(open('$SRC/meta.json'))['demo_cmd'])")
# make the demo command relative to the scratch worktree
mkdir -p $WT/_seed && cp -r /tmp/seed/$P/_seed/$V $WT/_seed/
CMD=${CMD//\/tmp\/seed\/$P/$WT}
echo "demo cmd: $CMD"
bash -c "$CMD" > /tmp/sv-$P$V.without.log 2>&1; RC0=$?
if ! git apply --3way $SRC/patch.diff 2>/tmp/sv-$P$V.apply.log && ! git apply $SRC/patch.diff 2>>/tmp/sv-$P$V.apply.log; then echo "PATCH DOES NOT APPLY"; cat /tmp/sv-$P$V.apply.log; exit 3; fi
go build ./... || { echo "DOES NOT COMPILE"; exit 4; }
bash -c "$CMD" > /tmp/sv-$P$V.with.log 2>&1; RC1=$?
# suite with patch (demo files removed)
find . -name 'zz_demo*' -delete
go test -vet=off -count=1 ./internal/multiplex/ ./internal/server/... ./internal/client/ ./internal/common/ ./internal/ecdh/ ./cmd/... > /tmp/sv-$P$V.suite.log 2>&1
SUITE_FAILS=$(grep -E '^--- FAIL' /tmp/sv-$P$V.suite.log | grep -v 'TestParseRedirAddr' | wc -l)
echo "demo without patch rc=$RC0 (want 0), with patch rc=$RC1 (want !=0), suite unexpected failures=$SUITE_FAILS"
git diff HEAD > /tmp/sv-$P$V.rebased.diff
cd /; git -C /repo worktree remove --force $WT
if [ $RC0 -eq 0 ] && [ $RC1 -ne 0 ] && [ $SUITE_FAILS -eq 0 ]; then
  D=/verif/seeded/$P$V; mkdir -p $D/demo
  cp /tmp/sv-$P$V.rebased.diff $D/patch.diff
  cp -r $SRC/demo/. $D/demo/
  python3 - <<PY
import json
m=json.load(open('$SRC/meta.json'))
m['confirmed_by_main']={'demo_without_patch_rc':$RC0,'demo_with_patch_rc':$RC1,'suite_unexpected_failures':$SUITE_FAILS,'ran':'tools/seedverify.sh $P $V in a scratch worktree of /repo HEAD (removed afterwards)'}
m['caught_by']='(not yet evaluated)'
json.dump(m,open('$D/meta.json','w'),indent=1)
PY
  echo "CONFIRMED -> $D"
else
  echo "NOT CONFIRMED"; tail -5 /tmp/sv-$P$V.without.log; tail -5 /tmp/sv-$P$V.with.log; grep -E '^--- FAIL|^FAIL' /tmp/sv-$P$V.suite.log | head
fi
