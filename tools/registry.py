"""Registry of checks: property id -> how vcheck builds and runs it, and what MANIFEST.json says."""

A_RACE = "go1.26.8 toolchain, Go race detector and testing/synctest (virtual clock, durable-blocking detection) are trusted"
A_HARNESS = "the harness code under /verif/harness (hostile network, reference codec/parsers, models) is trusted"

HOOK_COMMITS = [
    '3ccf5ed7b1513665b3f363bf34d088ebefb1e2ce',
    '9d565ef316c50ce36def21796e40afa3160af68a',
    'c46cd9b5c78a35280a1aa77b17306ca69e80458a',
]

ALL = ['C%02d' % i for i in range(1, 21)]

CHECKS = {
    'C02': {
        'pkg': 'internal/multiplex', 'test': 'TestVerif_C02', 'level': 'exploration',
        'technique': 'runtime monitor: model-based oracle over enumerated/sampled arrival schedules of the real reassembly buffer, blocking decided in a synctest bubble, under the race detector',
        'level_text': 'Executes the real stream buffer on every arrival permutation of n<=6 (quick) / n<=7 (thorough) frames x read schedules x closing/non-closing x base '
                      'sequence numbers, plus sampled permutations up to n=200, and compares every Read and every toBeClosed report with a sequential model; '
                      'a parked reader is decided (not timed out) inside a virtual-time bubble. Exhaustive over the small-n space, sampled beyond.',
        'level_note': 'Assumes ' + A_RACE + '; bases other than 0 rely on the field name nextRecvSeq (skipped, and reported, when absent). Wrap-around past 2^64 is outside the statement.',
        'rule': 'schedule = (arrival permutation of n frames, closing/non-closing last frame, base sequence number, '
                'read-after-write mask, payload sizes); all n! permutations for n<=6 (quick) / n<=7 (thorough) x masks, '
                'sampled permutations for n in 8..64 and 200; non-trivial = arrival order is not the identity; '
                'distinct = enumerated without repetition (counter distinct_enumerated) + hashed sampled schedules',
        'exhaustive': True, 'exhaustive_scope': 'all arrival permutations for n<=6 (quick) / n<=7 (thorough), all read masks for n<=5',
        'assumptions': [A_RACE, 'base sequence numbers other than 0 are preset through reflection on the field name nextRecvSeq'],
        'quick': {'shards': 8, 'timeout': 300},
        'thorough': {'shards': 16, 'timeout': 1800},
    },
}

NOT_APPLICABLE = {p: 'check not built yet in this round (the design in DESIGN.md section 3 applies; runtime monitoring can decide it)'
                  for p in ALL if p not in CHECKS}
