"""Registry of checks: property id -> how vcheck builds and runs it, and what MANIFEST.json says."""

A_RACE = "go1.26.8 toolchain, Go race detector and testing/synctest (virtual clock, durable-blocking detection) are trusted"
A_HARNESS = "the harness code under /verif/harness (hostile network, reference codec/parsers, models) is trusted"

HOOK_COMMITS = [
    '3ccf5ed7b1513665b3f363bf34d088ebefb1e2ce',
    '9d565ef316c50ce36def21796e40afa3160af68a',
    'c46cd9b5c78a35280a1aa77b17306ca69e80458a',
]

ALL = ['C%02d' % i for i in range(1, 21)]

CHECKS = {
    'C02': {
        'pkg': 'internal/multiplex', 'test': 'TestVerif_C02', 'level': 'exploration',
        'technique': 'runtime monitor: model-based oracle over enumerated/sampled arrival schedules of the real reassembly buffer, blocking decided in a synctest bubble, under the race detector',
        'level_text': 'Executes the real stream buffer on every arrival permutation of n<=6 (quick) / n<=7 (thorough) frames x read schedules x closing/non-closing x base '
                      'sequence numbers, plus sampled permutations up to n=200, and compares every Read and every toBeClosed report with a sequential model; '
                      'a parked reader is decided (not timed out) inside a virtual-time bubble. Exhaustive over the small-n space, sampled beyond. A concurrent part lets several goroutines (as the receive loops of several connections do) push the frames of one stream, with payloads of up to 20 kB that span several reads; the reader must see the sequence-ordered concatenation. A session-level part opens a stream while the session has one connection, lets more connections join and checks the reassembled bytes when the application drains the stream with Read or with io.Copy into a slow destination (a slice handed to the destination must not change under it).',
        'level_note': 'Assumes ' + A_RACE + '; bases other than 0 rely on the field name nextRecvSeq (skipped, and reported, when absent). Wrap-around past 2^64 is outside the statement.',
        'rule': 'schedule = (arrival permutation of n frames, closing/non-closing last frame, base sequence number, '
                'read-after-write mask, payload sizes); all n! permutations for n<=6 (quick) / n<=7 (thorough) x masks, '
                'sampled permutations for n in 8..64 and 200; non-trivial = arrival order is not the identity; '
                'distinct = enumerated without repetition (counter distinct_enumerated) + hashed sampled schedules',
        'exhaustive': True, 'exhaustive_scope': 'all arrival permutations for n<=6 (quick) / n<=7 (thorough), all read masks for n<=5',
        'assumptions': [A_RACE, 'base sequence numbers other than 0 are preset through reflection on the field name nextRecvSeq'],
        'quick': {'shards': 8, 'timeout': 300},
        'thorough': {'shards': 16, 'timeout': 1800},
    },
    'C04': {
        'pkg': 'internal/multiplex', 'test': 'TestVerif_C04', 'level': 'exploration',
        'technique': 'runtime differential monitor: real encoder/decoder vs independent reference codec and frozen golden vectors over every payload length, under the race detector',
        'level_text': 'Runs the real obfuscate/deobfuscate on every payload length 1..16132 for all four methods (both buffer placements, sequence numbers on both sides of the padding '
                      'threshold, random ids/flags/keys) and checks: own round trip, decoding by an independently written codec, decoding of reference-encoded messages with arbitrary '
                      'padding, byte-exact equality with the reference encoder where the encoding is deterministic, the size limit, and frozen golden vectors. For the plain method also messages without a dedicated nonce trailer (extra length 0..7), as older encoders of the same wire format emit.',
        'level_note': 'Assumes ' + A_RACE + ' and that verifkit/refcodec.go (written from the layout description, cross-checked by golden vectors frozen at the pinned commit) is a correct reading of the Cloak v2 layout.',
        'rule': 'case = (method, payload length, sequence-number class, stream id, closing flag, key, buffer placement); every length 1..max per method; '
                'quick: one or two sequence classes per length (rotating), thorough: all nine classes and repeated padding draws; distinct by construction (enumerated); '
                'non-trivial: every case runs all oracles (round trip, reference decode, foreign decode, size limit, byte-exact when deterministic)',
        'exhaustive': True, 'exhaustive_scope': 'payload lengths 1..16132 x 4 methods x 2 placements',
        'assumptions': [A_RACE, A_HARNESS],
        'quick': {'shards': 16, 'timeout': 600},
        'thorough': {'shards': 16, 'timeout': 3600},
    },
    'C11': {
        'pkg': 'internal/multiplex', 'test': 'TestVerif_C11', 'level': 'exploration',
        'technique': 'runtime monitor: mutation of genuine messages fed to the real receive path, state-snapshot + return-value + delivery oracle, crash attribution per child process, race detector',
        'level_text': 'Feeds the real Session receive path with every single-bit flip of genuine messages (all positions for payloads <= 1000 bytes, header/tail plus sampled positions for the maximum size), '
                      'all short truncations/extensions, random multi-byte corruptions, messages sealed under other keys or methods, and arbitrary byte strings (all four methods, ordered and datagram sessions); '
                      'a processed modification is detected by return value, by a before/after snapshot of the stream table, counters and accept queue, and by what a valid frame delivers afterwards. After undecodable records on every connection, ordinary multi-stream traffic arriving concurrently on 2..4 connections must be delivered exactly (the oracle of C01).',
        'level_note': 'Assumes ' + A_RACE + '. Cryptographic forgery is out of reach: only malleability exercisable by editing bytes without keys is tested. State is read through the identifiers the repository tests already use (streams, acceptCh, streamCount).',
        'rule': 'case = (AEAD method, payload size in {1,2,17,100,1000,max}, sequence number in {0,3,7}) with all bit flips/truncations/extensions/corruptions of one genuine message, or a batch of random byte strings '
                '(method x ordered/unordered); counters give the number of injections; distinct by construction; non-trivial = every case performs >= 1000 injections',
        'assumptions': [A_RACE, A_HARNESS],
        'quick': {'shards': 16, 'timeout': 600},
        'thorough': {'shards': 16, 'timeout': 3600},
    },
    'C01': {
        'pkg': 'internal/multiplex', 'test': 'TestVerif_C01',
        'parts': [{'pkg': 'internal/multiplex', 'test': 'TestVerif_C01'}, {'pkg': 'internal/server', 'test': 'TestVerif_C01Path', 'shards': 12}],
        'level': 'exploration',
        'technique': 'runtime monitor: incremental generator-comparison oracle at the reading application over a hostile in-memory network (chosen arrival orders, segmentation, back-pressure) in a synctest bubble, forced addConn interleaving via hook, race detector',
        'level_text': 'Runs two real sessions over 1..8 TLSConn connections of the hostile network with 1..hundreds of concurrent bidirectional streams, all four methods, Write and ReadFrom paths and write sizes from 1 byte to several frames; '
                      'the harness chooses cross-connection arrival order (random merge, starved connection, newest first, LIFO) or lets goroutines race with jitter, connection adding during traffic and bounded windows; every byte read is compared with the tagged generator, '
                      'and at quiescence (decided by synctest.Wait, not by timeouts) every stream must be complete and both sessions open. One case forces sends inside the addConn publish window through a hook; churn cases close streams from the reading side while both sides are inside large writes over window-bounded connections (a stuck-bubble watchdog reports lock cycles from goroutine dumps). A slow-consumer case leaves 20 MiB (thorough: up to 33 MiB) unread on one stream while another stream of the session must keep exchanging messages. A second part runs the same tagged-byte oracle (some applications stay silent for seconds after connecting) through the whole path: application -> client.RouteTCP -> session -> hostile network -> server.Serve -> proxy dial -> application.',
        'level_note': 'Assumes ' + A_RACE + ' and ' + A_HARNESS + '. Goroutine schedules are sampled (GOMAXPROCS sweep, jitter), not enumerated; arrival orders are sampled because Cloak picks connections at random.',
        'rule': 'case = (method, NumConn incl. singleplex, router policy or free-running with jitter/window/late connection adding, segmentation, GOMAXPROCS, stream plans with tagged up/down write-size sequences); '
                'distinct = hash of configuration and first stream plan; non-trivial = at least one stream with >= 16 bytes each way verified byte by byte; arrival_orders counts distinct cross-connection record orders observed',
        'assumptions': [A_RACE, A_HARNESS],
        'quick': {'shards': 16, 'timeout': 600},
        'thorough': {'shards': 16, 'timeout': 3600},
    },
    'C03': {
        'pkg': 'internal/multiplex', 'test': 'TestVerif_C03',
        'parts': [{'pkg': 'internal/multiplex', 'test': 'TestVerif_C03'}, {'pkg': 'internal/server', 'test': 'TestVerif_C03Path', 'shards': 12}],
        'level': 'exploration',
        'technique': 'runtime monitor: prefix/complete-then-error oracle on both ends of real session pairs, closing notice placed by a router that decodes the wire, parked readers decided by synctest quiescence plus 10 virtual minutes',
        'level_text': 'Two real sessions over 1..8 connections (and singleplex); one side writes B (0 bytes to several frames) and closes, or both close; the router recognises the closing record with the reference codec and delivers it before, between or after '
                      'the data on other connections; oracle: the non-closing side reads exactly B then the broken-stream error, closers read a prefix, no reader is parked after 10 virtual minutes, writes fail after a local or processed close, '
                      'bytes that had arrived stay readable after a local Close. Further scenarios: crossing closes while both sides are blocked in large writes over window-bounded connections; a local Close whose closing-notice send fails while a Read is parked (the Read must return); a local Close with several MiB of unread backlog; and write-then-close through the whole path (RouteTCP / server / proxy side).',
        'level_note': 'Assumes ' + A_RACE + ' and ' + A_HARNESS + '. Placement of the closing notice is sampled per policy (Cloak picks connections at random), not enumerated.',
        'rule': 'case = (method, NumConn, closing side opener/acceptor/both, write sizes before close, router policy close-first/close-last/random/lifo/starve, segmentation, late reader, parked local reader); '
                'distinct = hash of the case; non-trivial = a close was issued and the other end was judged at quiescence',
        'assumptions': [A_RACE, A_HARNESS],
        'quick': {'shards': 16, 'timeout': 600},
        'thorough': {'shards': 16, 'timeout': 3600},
    },
    'C12': {
        'pkg': 'internal/multiplex', 'test': 'TestVerif_C12', 'level': 'fault_enumeration',
        'technique': 'runtime fault injection: reset/EOF/session-Close injected at every routed record (boundary and inside header/payload/tag) of real session pairs in a synctest bubble; oracle over readers, recorded operations, connection states, stream counters and timers; forced check-then-act windows via hooks',
        'level_text': 'For each small scenario (1..4 connections, 1..6 streams in open/transfer/close phases) a fault-free run fixes the number of routed records; the run is then repeated with a reset, an EOF or a Close by either side at each record '
                      '(every boundary; quick: rotating subset of the in-record offset classes, thorough: all classes and kinds). After 10 virtual minutes the oracle demands: every reader got a prefix then an error, no recorded operation is still blocked, both sessions are closed, '
                      'OpenStream is refused, every connection was closed by some end. Live-session invariants (stream count = open streams at quiescent points, no timer close with an open stream, singleplex closes with its stream) and two hook-forced windows (Close inside OpenStream, Close inside addConn) complete it; two Accept loops run per session and a singleplex session must refuse a second OpenStream. Every connection END must be closed by the session that owns it (also when the write of the final notice of Close itself fails), and a Close called while the path is stalled and the send window full must release blocked Read/Accept and refuse OpenStream at once.',
        'level_note': 'Assumes ' + A_RACE + ' and ' + A_HARNESS + '; a fault is modelled as TCP does it (bytes before the cut are delivered, both ends then fail). Which connection carries which record is Cloak\'s random choice, so "each connection" is covered statistically, each record index exhaustively.',
        'rule': 'case = (scenario, fault step = index of routed record, offset class in {boundary, tls header, frame header, payload, tag}, kind in {reset, eof, close by client, close by server}) plus invariant/timer/forced-window cases; '
                'distinct = hash(scenario, fault); non-trivial = the fault struck a live session with streams in flight',
        'exhaustive_scope': 'record boundaries of each small scenario (reset), all classes and kinds in the thorough tier',
        'assumptions': [A_RACE, A_HARNESS],
        'quick': {'shards': 16, 'timeout': 900},
        'thorough': {'shards': 16, 'timeout': 5400},
    },
    'C13': {
        'pkg': 'internal/multiplex', 'test': 'TestVerif_C13', 'level': 'exploration',
        'technique': 'runtime trace checker: every record a real session writes is decoded from a wire tap with the reference codec and checked offline against the recorded call/return history of concurrent Write/ReadFrom/Close (uniqueness, gap-freeness, contiguity, real-time order), with injected send failures; race detector as second monitor',
        'level_text': 'A real Session writes to tapped connections while 1..8 goroutines call Write on the same stream, one feeds ReadFrom, and Close comes at a random moment (1..16 streams, sizes from 1 byte to 4 frames, all methods, GOMAXPROCS sweep); '
                      'the decoded wire log must show: no (stream, seq) pair twice (nonce uniqueness), seqs exactly 0..n-1 when no send failed, each data frame a contiguous piece of one write, per-writer bytes in order, writes ordered consistently with real time, '
                      'one closing frame numbered after every write that completed before Close. One case in five injects a send that fails after its bytes left, or a broken connection, to check "skipped but never reused". Frames of concurrent writers must not interleave within the pieces of one write, and a record of a closed stream replayed five virtual minutes later must not resurrect it. One history in six runs on a datagram-mode (unordered) session.',
        'level_note': 'Assumes ' + A_RACE + ' and ' + A_HARNESS + '. Schedules are sampled, not enumerated. Writes of a writer are matched greedily by content (sizes >= 8 bytes when several writers share a stream, so matches are unambiguous).',
        'rule': 'case = one concurrent history (method, connections, streams, writers per stream, ReadFrom on/off, Close on/off, write-size set, GOMAXPROCS, injected send failure); distinct = hash of the case; '
                'interleavings counts distinct global orders of connection writes observed; non-trivial = at least 3 writes per writer were issued and every frame on the wire was decoded and attributed',
        'assumptions': [A_RACE, A_HARNESS],
        'quick': {'shards': 16, 'timeout': 600},
        'thorough': {'shards': 16, 'timeout': 3600},
    },
    'C14': {
        'pkg': 'internal/multiplex', 'test': 'TestVerif_C14',
        'parts': [{'pkg': 'internal/multiplex', 'test': 'TestVerif_C14'}, {'pkg': 'internal/server', 'test': 'TestVerif_C14UDP', 'shards': 6}],
        'level': 'exploration',
        'technique': 'runtime monitor: exactly-once multiset oracle over tagged datagrams on real unordered session pairs with router-chosen arrival orders; oversize refusal checked on the wire tap; short-buffer read oracle',
        'level_text': 'Unordered session pairs over 1..8 connections, 1..8 streams with concurrent senders in both directions, tagged self-describing datagrams (sizes around 8192 and the frame maximum, random others), arrival order chosen by the router or free-running with jitter; '
                      'every received message must be byte-identical to a datagram written on that stream, at most once, and at quiescence on a healthy stream exactly once. A single-stream scenario sends every size 1..64, the boundary sizes and sizes above the maximum: '
                      'oversize writes must fail without emitting a byte (wire tap), reads with buffers of size len-1, 1 and len/2 must fail without consuming, and the datagram must then be returned whole; streams are closed at the end (nothing but written datagrams may be delivered at close time, reads after close fail).',
        'level_note': 'Assumes ' + A_RACE + ' and ' + A_HARNESS + '. A second part (server package) sends self-describing datagrams of 1..16000 bytes through real UDP sockets -> client.RouteUDP -> unordered session -> server.Serve -> UDP echo behind the proxy dial, outside a bubble; there loss is never a verdict, only a delivered datagram that equals no sent datagram is.',
        'rule': 'case = (method, connections, router policy/free-running, segmentation, per-stream lists of datagram sizes both ways) or a single-stream size sweep; distinct = hash of the case; non-trivial = at least one datagram each way compared byte for byte',
        'assumptions': [A_RACE, A_HARNESS],
        'quick': {'shards': 16, 'timeout': 600},
        'thorough': {'shards': 16, 'timeout': 3600},
    },
    'C19': {
        'pkg': 'internal/multiplex', 'test': 'TestVerif_C19',
        'parts': [{'pkg': 'internal/multiplex', 'test': 'TestVerif_C19'}, {'pkg': 'internal/server', 'test': 'TestVerif_C19Sys', 'shards': 8}],
        'level': 'exploration',
        'technique': 'runtime monitor on a virtual clock: exact all-intervals token-bucket bound (running-minimum formulation) over the tapped record stream of real sessions sharing one valve, plus a bounded-progress lower bound for backlogged senders',
        'level_text': '1..3 real session pairs x 1..4 connections x 1..8 single-writer streams share one LimitedValve; traffic runs for about 30 virtual seconds in a synctest bubble; sent records are timestamped at the instant their tokens were granted '
                      '(the network never blocks a write), accepted records when the receiving loop comes back for the next record; for every pair of events the bound bytes <= rate x t x 1.01 + one second\'s worth is checked exactly, '
                      'and backlogged runs must reach rate x t x 0.99 minus one message. Rates from 6 kB/s (below one receive buffer, with small messages) to 100 MB/s; in every sixth case the peer also floods records that the session drops (undecodable bytes, genuine frames of a closed stream), which count as upload bytes all the same. Close storms (100..250 short streams closed by the server: closing notices are bytes too) and datagram-mode sessions whose senders offer three times the rate on their own schedule complete the picture.',
        'level_note': 'Assumes ' + A_RACE + ' (the rate limiter sleeps on the bubble\'s virtual clock) and ' + A_HARNESS + '. The metered unit is the record payload (what the valve counts). A second part (server package) lets several first connections of one database user race through the real dispatcher and checks the same bound over all of that user\'s sessions together.',
        'rule': 'case = (rate, sessions, connections, streams, write-size set, direction tx/rx/both, idle gap, method); distinct = hash of the case; non-trivial = the traffic volume exceeds the initial burst so that the limiter actually throttles (except the 1e8 B/s rate, which checks the burst bound only)',
        'assumptions': [A_RACE, A_HARNESS],
        'quick': {'shards': 16, 'timeout': 900},
        'thorough': {'shards': 16, 'timeout': 5400},
    },
    'C05': {
        'pkg': 'internal/common', 'test': 'TestVerif_C05',
        'parts': [{'pkg': 'internal/common', 'test': 'TestVerif_C05'}, {'pkg': 'internal/server', 'test': 'TestVerif_C05WS', 'shards': 6}],
        'level': 'exploration',
        'technique': 'runtime monitor: exactly-one-read-per-message oracle on the real TLSConn and WebSocketConn (real gorilla handshake) over a segmenting in-memory network, enumerated cut positions, concurrent tagged writers, race detector',
        'level_text': 'The real record layers run over hnet with the receive direction segmented: every single cut position and every pair of cut positions of a short three-message exchange, then 1-byte, random and coalescing segmentation for all lengths 0..64, '
                      'the boundary lengths up to 16640 and random lengths; each Read must return exactly the next written message. Records larger than the reader\'s buffer must produce an error, never truncated data. 2..16 goroutines write checksummed tagged messages '
                      'through one connection with yields between writes; every received message must be whole and per-writer counters gap-free. Writes that follow a write whose transport reported an error must still be framed correctly. A second part (server package) takes the connection the real WebSocket handshake handler produces, blocks a data writer behind a bounded window and lets the peer send WebSocket pings meanwhile: every message must arrive whole.',
        'level_note': 'Assumes ' + A_RACE + ' and ' + A_HARNESS + ' (hnet Write is atomic like a TCP socket write). For WebSocket a zero-length binary message is excluded because the API cannot distinguish it from a skipped control frame.',
        'rule': 'case = (conn kind tls/ws, cut placement or segmentation policy, message lengths) / (kind, message length, reader buffer) / (kind, writers, GOMAXPROCS); distinct by construction; non-trivial = at least one message crossed a segment boundary or was written concurrently',
        'exhaustive': True, 'exhaustive_scope': 'all single and paired cut positions of the short exchange for both connection kinds',
        'assumptions': [A_RACE, A_HARNESS],
        'quick': {'shards': 8, 'timeout': 600},
        'thorough': {'shards': 16, 'timeout': 1800},
    },
    'C06': {
        'pkg': 'internal/server', 'test': 'TestVerif_C06', 'level': 'exploration',
        'technique': 'runtime differential monitor: the real client handshake against the real server authentication over a segmenting in-memory network on a virtual clock; field-by-field and key comparison; whole-system sessions inspected in the server panel',
        'level_text': 'Hundreds (quick) to tens of thousands (thorough) of real handshakes: UIDs incl. all-zero/all-0xff, proxy-method names of every length 1..12, four encryption methods (and the aes-gcm synonym), session ids incl. 0 and 2^32-1, both flags, chrome/firefox/safari, direct and CDN transports '
                      '(the client\'s real utls TLS handshake is terminated by an in-process crypto/tls server that forwards plaintext to the origin), server names incl. a 253-byte name and random/RANDOM, client clock offsets in [-178 s, +178 s] plus clients ahead by just under the 180 s tolerance (inside the window by the sub-second phase of the server clock), random server clock phases, byte-wise/random/whole segmentation. '
                      'Oracle: every ClientInfo field equals the configuration, the key returned by the client equals the key the server sealed, and a message crosses the prepared connections. Whole system: MakeSession + Serve, the registered session has the client\'s key and flags, a 1 KiB echo works and the proxy address of the configured method is dialled (every fourth case after an outage of 190..390 virtual seconds during which dials fail). Forced overlaps: a connection parked between authorisation and session attachment (hook, or inside the user manager) while another completes; 2..6 simultaneous connections of one new session of a database user against a yielding user manager - each must be told the key of the session the server keeps.',
        'level_note': 'Assumes ' + A_RACE + ', ' + A_HARNESS + ' and Go\'s crypto/tls as the CDN stand-in. The exact edges of the +-180 s window are the subject of C07; C06 only adds clients that are inside the window by the sub-second phase of the server clock. ClientHello randomness (extension order, padding, GREASE) is sampled by repetition; evidence lists the distinct hello lengths and extension orders seen.',
        'rule': 'case = one handshake configuration (uid class, method-name length, encryption, session id, flags, browser, transport, server name, clock offset, segmentation); distinct = hash of the configuration; non-trivial = the handshake completed and all fields and both keys were compared',
        'assumptions': [A_RACE, A_HARNESS],
        'quick': {'shards': 14, 'timeout': 900},
        'thorough': {'shards': 16, 'timeout': 5400},
    },
    'C07': {
        'pkg': 'internal/server', 'test': 'TestVerif_C07', 'level': 'exploration',
        'technique': 'runtime monitor: mutation of genuine first packets (produced by the real client) against the real authentication on fresh states, exact integer-nanosecond window oracle, and dispatch-level observation (handshake reply vs redirect, where an admin request lands) in the real Serve loop',
        'level_text': 'Genuine first packets of firefox/chrome/safari hellos and the WebSocket GET are captured from the real client; every bit of the sealed block and every third (quick) / every (thorough) other bit is flipped, plus random multi-byte changes, truncations and foreign server keys, each on a fresh state: '
                      'acceptance requires an unmodified sealed block and an identical recovered identity. The timestamp window is swept in 1 s (thorough) / 7 s (quick) steps over +-400 s and at +-180 s +- {1 ns, 1 ms, 1 s} with four sub-second server phases against the exact integer oracle. '
                      'Forgeries sealed with the low-order X25519 points as ephemeral key (shared secret zero) must be refused. Through the real Serve loop, 18 identity/method/session-id classes x 2 transports check that only authorised users of served methods get a handshake reply (others reach the redirect target) and that the admin API answers only to (AdminUID, session id 0). Timestamps far outside the window (days, centuries, 2^40, 2^62, 2^63-1 seconds, before 1970) must be refused.',
        'level_note': 'Assumes ' + A_RACE + ' and ' + A_HARNESS + '. The X25519-ignored top bit of the ephemeral key is counted, not judged, here (it is C08\'s concern). Changes to non-authenticating parts of a packet may legitimately be accepted.',
        'rule': 'case = (base packet, shard of bit positions and random modifications) / (transport, clock offsets x server phases) / (dispatch class, transport); counters give the number of presentations; distinct by construction; non-trivial = the genuine packet is accepted first, so every rejection is due to the modification',
        'assumptions': [A_RACE, A_HARNESS],
        'quick': {'shards': 16, 'timeout': 900},
        'thorough': {'shards': 16, 'timeout': 5400},
    },
    'C08': {
        'pkg': 'internal/server', 'test': 'TestVerif_C08', 'level': 'exploration',
        'technique': 'runtime monitor: model (set of accepted identity blocks) checked online against the real State with its replay-cache cleaner running on a virtual clock over multi-day histories; stress of simultaneous presentations; differential test of altered copies that still authenticate',
        'level_text': 'Histories: genuine packets (real client, clock offsets at both ends of the window) are presented to a real State inside a synctest bubble across 12 h clean-up ticks - first sightings at tick-{1,10,179,180,181,359,361} s, re-presentations at tick+{0,1,179,359} s, and random 50..200-event histories over three virtual days; '
                      'any second acceptance of a packet is a violation, and a first timely presentation must be accepted. Schedules: 2..64 goroutines present one packet at once (thousands of rounds, yields injected at the clock read): exactly one acceptance; a scan-race history parks the cleaner inside its scan (through the injected clock) while the packet is presented again. '
                      'Variants: bit flips, random multi-bit changes and HTTP spelling variants that a fresh state still authenticates must be refused by a state that has seen the original. Flood histories put 3000 (thorough: some with 70000) unauthenticated first packets with distinct keys between a capture and its replay.',
        'level_note': 'Assumes ' + A_RACE + ' and ' + A_HARNESS + '. Schedules of the simultaneous presentations are sampled by stress. Only malleability reachable by editing bytes without keys is tested.',
        'rule': 'case = one history (boundary or random), one concurrency level, or one base packet x shard of variants; counters give presentations; distinct = case index; non-trivial = at least one packet was accepted once and presented again',
        'assumptions': [A_RACE, A_HARNESS],
        'quick': {'shards': 16, 'timeout': 900},
        'thorough': {'shards': 16, 'timeout': 5400},
    },
    'C09': {
        'pkg': 'internal/server', 'test': 'TestVerif_C09', 'level': 'exploration',
        'technique': 'runtime differential monitor against a plain TCP relay: byte taps on the peer connection and on the connection the real Serve loop dials to the redirect target, hostile input scripts with segmentation and (virtual-time) pauses, target response scripts, not-wedged probe with a genuine client, crash attribution per child process',
        'level_text': 'Hostile connections are played against the real Serve loop in a bubble: all first-byte values, random bytes, TLS records whose declared length is below/at/above the 3000-byte buffer with bodies shorter/equal/longer than declared, browser-like hellos, genuine Cloak hellos that are bit-mutated, truncated, replayed, '
                      'from an unauthorised UID or for an unknown proxy method, HTTP requests with no/bogus/over-long headers or with further bytes in the same segment, structurally valid ClientHellos with malformed key_share/other extension bodies (placed in the browser\'s position, first and last), LF-only line ends, byte-wise slow delivery and stalls beyond the 15 s first-packet timeout; the target answers immediately, after the request, in chunks, late (after 16 s), never, or closes early. '
                      'Oracle: target bytes are a prefix of the peer\'s stream and all of it for complete/unrecognisable first packets, peer bytes are exactly the target\'s reply, the relay is not cut while both ends stay open, closing one end closes the other, and a genuine client is still served afterwards (a leaked lock shows as a lock wait nobody can end: stuck-bubble watchdog). With RedirAddr lacking a port and three listening ports every peer must be relayed to the port it connected to. A concurrent variant connects ~25 hostile peers at once and matches target streams by content.',
        'level_note': 'Assumes ' + A_RACE + ' and ' + A_HARNESS + '. Not demanded: relaying when the target cannot be dialled; refusal of over-cap users; full delivery of the reply when the peer closes first.',
        'rule': 'case = one hostile connection (input kind x segmentation x pauses x target response script); distinct = hash(kind, reply script, length, index); input_kinds counts distinct kind/response combinations; non-trivial = at least one byte was sent and both taps were compared at quiescence',
        'assumptions': [A_RACE, A_HARNESS],
        'quick': {'shards': 16, 'timeout': 900},
        'thorough': {'shards': 16, 'timeout': 5400},
    },
    'C10': {
        'pkg': 'internal/server', 'test': 'TestVerif_C10', 'level': 'exploration',
        'technique': 'runtime trace checker: independent strict TLS record/ClientHello/ServerHello parser run offline over the byte taps of every client<->server connection of whole-system sessions (real client, real Serve loop)',
        'level_text': 'Whole-system direct-mode sessions (three browser signatures, configured and random server names incl. a 253-byte name, four methods, singleplex and 1..4 connections, ordered and datagram mode) carry echo traffic with write sizes from 1 byte to several frames, stream closes and session closes from either side; '
                      'every byte either side wrote is then parsed: one handshake record with a structurally valid ClientHello (SNI as configured or of the documented random shape, 32-byte session id, 32-byte x25519 share), ServerHello echoing the session id + ChangeCipherSpec + application data, '
                      'and thereafter only type-23/version-3.3 records of length 1..16640 with no stray bytes. Variants: the path server->client stops delivering for 7 virtual seconds while the server is in the middle of a record (bounded window) and resumes; a second user\'s connection is reset under the server\'s write while the observed session keeps running.',
        'level_note': 'Assumes ' + A_RACE + ' and that verifkit/reftls.go reads RFC 8446 correctly. Traffic patterns are sampled; the structural checks are exact on everything that was sent.',
        'rule': 'case = one whole-system session (configuration x traffic pattern x segmentation); distinct = hash of the configuration; hello_variants counts distinct (length, extension order) pairs; non-trivial = at least one data record beyond the handshake was parsed in each direction',
        'assumptions': [A_RACE, A_HARNESS],
        'quick': {'shards': 16, 'timeout': 900},
        'thorough': {'shards': 16, 'timeout': 5400},
    },
    'C15': {
        'pkg': 'internal/server', 'test': 'TestVerif_C15', 'level': 'exploration',
        'technique': 'runtime linearizability checking (porcupine) of histories recorded at the client boundary of the real server: handshake(uid, sid) -> key | refused, close, admin changes, against the sequential model get-or-create-with-cap; forced admission rendezvous via hook; cap invariant read at quiescent points',
        'level_text': 'Whole-system rig with a bbolt user database in a bubble: bursts of 2..32 simultaneous real handshakes over 1..4 (UID, session id) pairs - or all with distinct new session ids for one user - for caps 0..4, interleaved with closures of non-last sessions and with cap/credit/expiry changes; '
                      'every connection is handshaken individually so each returned key is observed; half of the bursts park all connections between user lookup and session creation (hook) and release them together, and the user manager is wrapped to yield inside AuthoriseNewSession. '
                      'porcupine checks each per-UID history; keys are checked for uniqueness across (UID, sid); NumSession() <= cap is asserted at every quiescent point. In every third history the first handshakes of a user arrive together while the user is not active yet. The model is nondeterministic in one respect: a user without credit or past expiry may have been cut off (C16) before any of its operations.',
        'level_note': 'Assumes ' + A_RACE + ', ' + A_HARNESS + ' and porcupine v1.3.0. A refused handshake is observed as "no reply by quiescence + 20 virtual seconds". The race with the closing of a user\'s last session is excluded here by an anchor session (it belongs to C17).',
        'rule': 'case = one history (users, caps, sequence of bursts/closures/admin changes, transport, GOMAXPROCS); distinct = history index; non-trivial = the history contains at least one burst of simultaneous handshakes and was checked by porcupine',
        'assumptions': [A_RACE, A_HARNESS, 'porcupine v1.3.0'],
        'quick': {'shards': 16, 'timeout': 900},
        'thorough': {'shards': 16, 'timeout': 5400},
    },
    'C17': {
        'pkg': 'internal/server', 'test': 'TestVerif_C17', 'level': 'exploration',
        'technique': 'runtime monitoring of the real user panel: stress storms under the race detector with a goroutine-dump deadlock classifier, hook-forced interleavings (overlapping upload rounds, admission vs last-session close, termination vs re-admission), ownership invariant read under the panel\'s own locks at quiescent points',
        'level_text': 'Storms of 16..64 goroutines issue GetUser/GetSession/CloseSession/TerminateActiveUser/updateUsageQueue/commitUpdate over 1..4 database users; completion is required, and if calls do not finish the verdict comes from goroutine dumps (a deadlock needs the same set of bookkeeping calls, all waiting for mutexes, in four consecutive dumps). '
                      'Three interleavings are forced deterministically with hooks: a usage collection overlapped by the commit of another round; a connection that resolved its user while the user\'s last session closes; a termination overlapped by a re-admission. '
                      'A fourth forced case makes a status upload fail while usage is queued (and half of the storms run against a user manager whose uploads fail now and then): all later bookkeeping must still complete. At every quiescent point every live session handed out must be the one registered under its id in the single active record of its UID.',
        'level_note': 'Assumes ' + A_RACE + ' and ' + A_HARNESS + '. Interleavings other than the three forced ones are only sampled by the storms. The deadlock classifier uses wall-clock polling only to decide when to look; its verdict is structural (stable all-mutex wait set), anything else is reported inconclusive.',
        'rule': 'case = one storm (workers, operations, users) or one forced interleaving; distinct = case index; non-trivial = at least 960 concurrent bookkeeping calls per storm, or a hook that was actually reached',
        'assumptions': [A_RACE, A_HARNESS],
        'quick': {'shards': 12, 'timeout': 900},
        'thorough': {'shards': 16, 'timeout': 5400},
    },
    'C16': {
        'pkg': 'internal/server', 'test': 'TestVerif_C16', 'level': 'exploration',
        'technique': 'runtime conservation monitor: per-user record-payload volume measured on wire taps (independent TLS record splitter) compared with the credit read back from the real bbolt user database after the real periodic usage uploads, on a virtual clock; cut-off of exhausted/expired/deleted users observed at the client side and in the panel',
        'level_text': 'Whole system in a bubble: 1..4 database users plus a bypass user, 1..3 sessions each over 1..3 direct connections, echo traffic bursts of up to 150 kB interleaved with the real one-minute upload rounds, session closures (including the last one), credit changes, expiry moved into the past and deletions. '
                      'At quiescent points after two upload intervals: nobody is charged more than the volume its own connections carried (never twice, never for another user), users that stayed active are charged exactly that volume in each direction, and users at or below zero credit, expired or deleted have lost every session within one round plus 10 virtual minutes; what is stored for a user that was cut off lies between the volume metered when the cutting round started and the total metered; overlapping upload rounds are forced through a hook. A conservation stress lets 2..6 goroutines meter bytes on one valve while the periodic and the per-user collection run concurrently: the queue must hold exactly the metered total.',
        'level_note': 'Assumes ' + A_RACE + ' and ' + A_HARNESS + '. Direct transport only (the metered unit is exactly the TLS record payload there). Credit changes are applied only after pending usage has been uploaded, so the expected value is the last written value minus the volume since.',
        'rule': 'case = one history (users, sessions, traffic bursts, closures, admin changes, upload rounds); distinct = history index; non-trivial = at least one traffic burst was followed by an upload round and a credit comparison',
        'assumptions': [A_RACE, A_HARNESS],
        'quick': {'shards': 16, 'timeout': 900},
        'thorough': {'shards': 16, 'timeout': 5400},
    },
    'C18': {
        'pkg': 'internal/server/usermanager', 'test': 'TestVerif_C18',
        'parts': [{'pkg': 'internal/server/usermanager', 'test': 'TestVerif_C18'}, {'pkg': 'internal/server', 'test': 'TestVerif_C18Owner', 'shards': 8}],
        'level': 'exploration',
        'technique': 'runtime model-based monitoring: reference map compared with the full observable state of the real bbolt-backed admin API after every operation and across close/reopen; porcupine linearizability check of concurrent API clients; every record shape driven through all consumers (and through the panel as a connecting owner) with panics recovered and attributed',
        'level_text': 'Sequences of 5..60 admin operations over three UIDs (create/update with every subset of the six optional fields and values incl. 0, -1 and the int32/int64 extremes, delete, read, list, UID-mismatching, malformed and undecodable requests, close/reopen at random points) are applied to the real router through httptest; '
                      'after each operation every user is read back and the list is compared with the reference model (unset fields read as 0 or null); a non-2xx answer must leave the state unchanged. 2..6 concurrent clients (including usage uploads, as the periodic round of the server issues them) are checked by porcupine per UID. '
                      'All 64 field subsets x value classes are pushed through GetUserInfo, ListAllUsers, AuthenticateUser, AuthoriseNewSession, UploadStatus and, in the server package, through the panel as a connecting owner; any panic is a violation.',
        'level_note': 'Assumes ' + A_RACE + ', ' + A_HARNESS + ' and porcupine v1.3.0. The model accepts either null or 0 for a field that was never written.',
        'rule': 'case = one operation sequence / one consumer sweep over all field subsets / one concurrent history / one block of owner connections; distinct = case index (owner part: enumerated record shapes); non-trivial = every sequence contains at least one accepted write followed by a full-state comparison',
        'assumptions': [A_RACE, A_HARNESS, 'porcupine v1.3.0'],
        'quick': {'shards': 12, 'timeout': 900},
        'thorough': {'shards': 16, 'timeout': 5400},
    },
    'C20': {
        'pkg': 'internal/client', 'test': 'TestVerif_C20',
        'parts': [{'pkg': 'internal/client', 'test': 'TestVerif_C20'},
                  {'pkg': 'internal/client', 'test': 'TestVerif_C20E2E', 'shards': 5, 'build_bins': {'VERIF_CKCLIENT': 'cmd/ck-client', 'VERIF_CKSERVER': 'cmd/ck-server'}}],
        'level': 'exploration',
        'technique': 'runtime differential monitor: every generated configuration is parsed from a JSON file and from the semicolon-separated option string and the processed result is compared with an independent transcription of the README; malformed inputs with panics recovered; (thorough) strace of the real ck-client binary for the keep-alive parameters that reach the kernel',
        'level_text': 'All presence/absence combinations of the nine optional keys (512 combinations, cycled several times with representative values incl. NumConn <= 0, KeepAlive <= 0, mixed-case names, the aes-gcm synonym, CDN defaults, empty alternative names, values containing "=" with and without the plugin-host escape) '
                      'are written as JSON and as an option string: both must parse to the same RawConfig and ProcessRawConfig must yield the documented NumConn/singleplex, keep-alive period, stream timeout, encryption method, transport, browser, websocket URL, addresses and server-name list; '
                      'each required key missing, a wrong key length and an unknown method must be rejected. 320 malformed option strings/files must produce errors, not panics. In the thorough tier the freshly built ck-client runs under strace and TCP_KEEPIDLE/TCP_KEEPINTVL of its outgoing socket must equal the configured KeepAlive.',
        'level_note': 'Assumes ' + A_RACE + ' and that tools/../harness/client/c20_test.go:c20Doc transcribes README.md correctly; the 300 s default of StreamTimeout comes from the example configuration (pinned, not documented). Command-line flags of cmd/ck-client other than what the strace run covers are not decided.',
        'rule': 'case = one generated configuration (presence mask of optional keys x representative values x escape style) given in both syntaxes; distinct = hash of the JSON text; non-trivial = both syntaxes were parsed and all processed fields were compared with the documented meaning',
        'assumptions': [A_RACE, A_HARNESS],
        'quick': {'shards': 12, 'timeout': 600},
        'thorough': {'shards': 16, 'timeout': 3600},
    },
}

NOT_APPLICABLE = {p: 'check not built yet in this round (the design in DESIGN.md section 3 applies; runtime monitoring can decide it)'
                  for p in ALL if p not in CHECKS}
