#!/opt/veriftools/pyvenv/bin/python
import json, jsonschema, glob, sys
jsonschema.validate(json.load(open('/verif/MANIFEST.json')), json.load(open('/root/.vp/MANIFEST.schema.json')))
n = 0
for f in sorted(glob.glob('/verif/evidence/*.json')):
    jsonschema.validate(json.load(open(f)), json.load(open('/root/.vp/EVIDENCE.schema.json')))
    n += 1
print('manifest + %d evidence files valid' % n)
