#!/bin/bash
# usage: tools/devseed.sh <seed-id> <check-id> [tier]   - run the dev harness against one seeded change in a scratch worktree
seed=$1; chk=$2; tier=${3:-quick}
d=/tmp/devseed-$$
git -C /repo worktree add -q --detach $d HEAD || exit 2
git -C $d apply /verif/seeded/$seed/patch.diff || { git -C /repo worktree remove --force $d; exit 2; }
cd /verif
H=${VERIF_HARNESS:-/verif/harness_dev}
VERIF_REPO=$d VERIF_HARNESS=$H VERIF_NO_EVIDENCE=1 ./vcheck $chk $tier 2>&1 | grep -A2 "^VIOLATION\|^BROKEN\|^\[$chk\] [a-z]" | cut -c1-500
git -C /repo worktree remove --force $d
