#!/bin/bash
# seedrun.sh <seeded-id> <check-id> [quick|thorough]  -- apply a seeded change to /repo, run a check, undo.
S=$1; C=$2; T=${3:-quick}
cd /repo || exit 2
if [ -n "$(git status --porcelain)" ]; then echo "/repo is not clean"; exit 2; fi
git apply /verif/seeded/$S/patch.diff || { echo "patch does not apply"; exit 3; }
cd /verif && ./vcheck $C $T > /tmp/seedrun-$S-$C.log 2>&1; RC=$?
git -C /repo checkout -- . ; git -C /repo clean -fdq internal cmd
echo "seed=$S check=$C tier=$T rc=$RC $(grep -c '^VIOLATION' /tmp/seedrun-$S-$C.log) violation line(s): $(grep -A1 '^VIOLATION' /tmp/seedrun-$S-$C.log | grep key= | head -3 | tr '\n' ' ')"
