#!/bin/bash
# sweep.sh <tier> <seed>...  -- run every registered check on the unchanged tree for each seed; report anything but exit 0
T=$1; shift
cd /verif
for s in "$@"; do
  for c in $(python3 -c "import sys; sys.path.insert(0,'tools'); from registry import CHECKS; print(' '.join(sorted(CHECKS)))"); do
    out=$(VERIF_SEED=$s VERIF_NO_EVIDENCE=1 ./vcheck $c $T 2>&1); rc=$?
    line=$(echo "$out" | tail -1 | cut -c1-110)
    if [ $rc -ne 0 ]; then echo "seed=$s $c rc=$rc  $line"; echo "$out" | grep -E "^VIOL|^  key|INCONCL|BROKEN" | head -5 | cut -c1-400; else echo "seed=$s $c ok  $(echo $line | grep -o 'wall=[0-9.]*s')"; fi
  done
done
