#!/usr/bin/env python3
"""Run the repository's own test suite with the verif guard OFF (pinned toolchain, exactly as
BASELINE.json does) and compare with the stable_pass list. Exit 0 iff every stable test passes."""
import json, os, subprocess, sys
base = json.load(open('/root/.vp/BASELINE.json'))
env = dict(os.environ)
for k in ('GOSUMDB', 'GOTOOLCHAIN'):   # GOSUMDB=off breaks the pinned-toolchain auto switch
    env.pop(k, None)
env['GOFLAGS'] = '-mod=mod'
p = subprocess.run(['go', 'test', '-json', '-vet=off', '-count=1', '-timeout', '25m', './...'],
                   cwd='/repo', env=env, stdout=subprocess.PIPE, stderr=subprocess.STDOUT, text=True)
res = {}
for ln in p.stdout.splitlines():
    try:
        e = json.loads(ln)
    except Exception:
        continue
    if e.get('Test') and e.get('Action') in ('pass', 'fail', 'skip'):
        res[e['Package'] + '::' + e['Test']] = e['Action']
missing = [t for t in base['stable_pass'] if res.get(t) != 'pass']
print('baseline: %d/%d stable tests pass (guard off)' % (len(base['stable_pass']) - len(missing), len(base['stable_pass'])))
for t in missing:
    print('  NOT PASSING:', t, res.get(t))
sys.exit(1 if missing else 0)
