#!/bin/bash
# seedreverify.sh <seeded-id>  -- re-confirm a (rebased) seeded change from /verif/seeded/<id> against /repo HEAD
S=$1; D=/verif/seeded/$S; WT=/tmp/srv-$S
export GOFLAGS=-mod=mod
git -C /repo worktree remove --force $WT 2>/dev/null
git -C /repo worktree add -q --detach $WT HEAD || exit 2
cd $WT
V=${S: -1}; P=${S:0:3}
mkdir -p _seed/$V && cp -r $D/demo _seed/$V/
CMD=$(python3 -c "import json;print(json.load(open('$D/meta.json'))['demo_cmd'])")
CMD=${CMD//\/tmp\/seed\/$P/$WT}
bash -c "$CMD" > /tmp/srv-$S.without.log 2>&1; RC0=$?
git apply $D/patch.diff || { echo "PATCH DOES NOT APPLY"; exit 3; }
go build ./... || { echo "DOES NOT COMPILE"; exit 4; }
bash -c "$CMD" > /tmp/srv-$S.with.log 2>&1; RC1=$?
find . -name 'zz_demo*' -delete
go test -vet=off -count=1 ./internal/multiplex/ ./internal/server/... ./internal/client/ ./internal/common/ ./internal/ecdh/ ./cmd/... > /tmp/srv-$S.suite.log 2>&1
SF=$(grep -E '^--- FAIL' /tmp/srv-$S.suite.log | grep -v 'TestParseRedirAddr' | wc -l)
cd /; git -C /repo worktree remove --force $WT
echo "$S: demo without patch rc=$RC0 (want 0), with patch rc=$RC1 (want !=0), suite unexpected failures=$SF"
python3 - <<PY
import json
p='$D/meta.json'; m=json.load(open(p))
m['reconfirmed_after_rebase']={'demo_without_patch_rc':$RC0,'demo_with_patch_rc':$RC1,'suite_unexpected_failures':$SF,'at':'$(git -C /repo log --format=%h -1)'}
json.dump(m,open(p,'w'),indent=1)
PY
